"""C07 - unsafe content never reaches executed code (structural clauses R1..R7 of DESIGN 5/C07)."""
import ast
import re

from .. import cfg as cfgmod
from ..fde import FDE, Obj
from ..mutate import Mutant, in_func, delete_stmt, in_module
from ..report import AnalysisError
from ..srcmodel import unparse, norm, walk_no_nested, calls_in
from . import mergerules as mr
from . import unitrules
from . import tr
from .common import (cfg_of, node_obj, is_method_call, F3, product_dicts, fde_guard, inside_with_calling,
                     facts_at, find_stmt_node, derives_from, get_kw, name_defs, recv_of, only_reached_from)

from .common import Guard  # noqa: E402

PROP = 'C07'
DECIDED = [
    'R1: a call of ConfigNode.ayns._require_safe on self dominates every execution sink (import_name, eval/exec/compile, __import__, import_module, a call/partial of the node target) in every ayns.on_evaluate_impl and the helpers it reaches; package-wide inventory of such primitives.',
    'R2: _require_safe raises UnsafeError exactly when ayns.safe is false; ayns.safe is False whenever one of the three flags is False or the source default is missing (27-row table).',
    'R3: argument children of !call/!bind and config names resolved by evaluated code are evaluated inside `with ctx.require_all_safe(..)`, which sets the flag before yield and restores it in finally.',
    'R4: every hand-out of an already evaluated value (path cache, identity cache, partially evaluated tree) and the on_evaluate call are dominated by the strict-mode safety gate; the unsafe-path record is written under the `not safe` branch with the cache key.',
    'R5: _replace_self/_replace_other are monotone in unsafety for _safe and _default_safe (9-row tables each).',
    'R6: Builder.add_source parses inside default_safe_flag(<conjunction containing the safe parameter>), default_safe_flag stores `value and old`, every add_source call made by node classes passes safe= derived from a node ayns.safe.',
    'R7: an _implicit_safe that is already False is never overwritten (metaclass adopt branch, _propagate_implicit_values, _get_child_kwargs).',
]
UNDECIDED = ['what legitimately executed user code does;', 'attribute access through ayns.cfg from evaluated code;',
             'spreading unsafety to siblings (the statement only forbids removing it).']
ASSUMPTIONS = ['utils.import_name / eval / exec / compile / __import__ / importlib.import_module / functools.partial of a target are the only execution primitives (inventory rule R1b lists every other use in the package)',
               'exceptions raised by a statement are taken before its effect']

SINK_NAMES = {'eval', 'exec', 'compile', '__import__', 'import_name'}
SINK_ATTRS = {'importlib.import_module', 'pickle.loads'}
R1_EXEMPT = {
    # qualname -> reason (one line each; these are not node-evaluation sites named by C07)
    'yaml._import_constructor': 'constant module name inside the package ("import" is a keyword)',
    'yaml._encode_all_metadata': 'parse-time {{...}} metadata literal, not one of the node kinds C07 names (out of scope, not claimed safe)',
    'yaml._decode_metadata': 'parse-time metadata blob, same as above',
    'utils.import_name': 'the import primitive itself',
}


NO_INLINE = {'_require_safe', 'import_name', '_resolve_args', '_patch_access_to_globals', 'get_eval_symbols'}


def _is_gate(call):
    return is_method_call(call, recv='self', member='_require_safe', ayns=True)


def _gate_ev(e):
    return tr.is_call(e, attr='_require_safe') and e.callee == 'self.ayns._require_safe'


def _derived_from_target(text):
    return text.startswith('self._func') or text.startswith('import_name(') or '(self._func' in text and text.startswith('import_name')


def _sink_ev(e):
    """execution sink: an import / eval primitive, or a call (or partial) of the node's target"""
    if e.kind != 'call':
        return None
    c = e.callee or ''
    if c in SINK_NAMES or c in SINK_ATTRS:
        return c
    if _derived_from_target(c):
        return 'call of the node target'
    if c in ('partial', 'functools.partial') and e.args and _derived_from_target(e.args[0].text):
        return 'partial over the node target'
    return None


def _sink_kind(call, tainted):
    f = call.func
    if isinstance(f, ast.Name):
        if f.id in SINK_NAMES:
            return f.id
    t = unparse(f)
    if t in SINK_ATTRS:
        return t
    return None


def r1(repo, run):
    impls = repo.cha('on_evaluate_impl', ayns=True)
    if not impls:
        raise AnalysisError('no ayns.on_evaluate_impl found')
    gate_def = repo.func('ConfigNode.ayns._require_safe')
    covered = set()
    seen_sinks = set()
    for fi in impls:
        r = repo.resolve(fi.cls.name, '_require_safe', ayns=True)
        paths = tr.paths_of(repo, fi, no_inline=NO_INLINE)
        bad = {}
        good = {}
        for p in paths:
            for i, e in enumerate(p.events):
                if e.kind == 'enter':
                    covered.add(e.callee)
                kind = _sink_ev(e)
                if kind is None:
                    continue
                key = (e.fn, norm(e.node) if e.node is not None else e.callee)
                if tr.any_before(p, i, _gate_ev):
                    good.setdefault(key, (e, kind))
                else:
                    bad.setdefault(key, (e, kind, p))
        for key, (e, kind, p) in bad.items():
            run.violation('C07.R1', fi, key[1][:200],
                          'execution sink (%s) is reached on a path (%s) on which self.ayns._require_safe(path) has not been called before' % (kind, tr.describe(p) or 'unconditional'), node=e.node)
        for key, (e, kind) in good.items():
            if key in bad:
                continue
            seen_sinks.add(key)
            if r is not gate_def:
                run.violation('C07.R1', fi, key[1][:200], 'gate resolves to %s, not ConfigNode.ayns._require_safe' % (r.qualname if r else None), node=e.node)
            else:
                run.ok('C07.R1', tr.where(fi, e), '%s [%s]%s' % (key[1][:80], kind, (' in helper ' + key[0]) if key[0] != fi.qualname else ''), 'self.ayns._require_safe precedes on every path')
    checked = {id(f.node) for f in impls}
    for cname in repo.subclasses('ConfigNode'):
        t = repo.resolve(cname, 'on_evaluate_impl', ayns=True)
        if t is None or id(t.node) not in checked:
            raise AnalysisError('class %s resolves on_evaluate_impl outside the checked set' % cname)
    fstr = repo.resolve('FStrNode', 'on_evaluate_impl', ayns=True)
    run.ok('C07.R1', fstr, 'FStrNode evaluates through %s' % fstr.qualname, 'covered')
    if len(seen_sinks) < 6:
        raise AnalysisError('C07.R1: only %d gated sinks found in Call/Bind/Eval/Import evaluation (expected >= 6)' % len(seen_sinks))
    run.floors['C07.R1'] = 6
    return covered


def r1b(repo, run, covered=()):
    """package-wide inventory of execution primitives outside the traced evaluation code"""
    n = 0
    for fi in repo.all_functions():
        if fi.name == 'on_evaluate_impl' and fi.ayns:
            continue
        for c in calls_in(fi.node):
            k = _sink_kind(c, set())
            if k is None:
                continue
            n += 1
            top = fi
            while top.outer is not None:
                top = top.outer
            if top.qualname in R1_EXEMPT:
                run.ok('C07.R1b', (fi.file, c.lineno, fi.qualname), unparse(c)[:80], 'exempt: ' + R1_EXEMPT[top.qualname])
            elif top.qualname in covered:
                run.ok('C07.R1b', (fi.file, c.lineno, fi.qualname), unparse(c)[:80], 'helper of a node evaluation: checked in context by R1')
            else:
                run.violation('C07.R1b', fi, unparse(c), 'execution primitive %s used outside a gated node evaluation and outside the exemption table' % k, node=c)
    for m in repo.modules.values():
        for s in m.tree.body:
            if isinstance(s, (ast.FunctionDef, ast.ClassDef, ast.AsyncFunctionDef)):
                continue
            for c in calls_in(s):
                if _sink_kind(c, set()):
                    run.violation('C07.R1b', (m.relpath, c.lineno, '<module>'), unparse(c), 'execution primitive at module level')
    run.floor('C07.R1b', 3)


def _safe_of(repo, o):
    f = FDE(repo)
    return fde_guard(lambda: f.getter(o, 'safe'))


def r2(repo, run):
    getter = repo.func('ConfigNode.ayns.safe')
    bad = []
    rows = 0
    for v in product_dicts(_safe=F3, _implicit_safe=F3, _default_safe=F3):
        o = node_obj('n', **v)
        s = _safe_of(repo, o)
        rows += 1
        must_be_false = (v['_safe'] is False or v['_implicit_safe'] is False or v['_default_safe'] is False or v['_default_safe'] is None)
        if must_be_false and s:
            bad.append((v, s))
        if not must_be_false and not s:
            bad.append((v, s))
    run.table('C07.R2', rows, 'ayns.safe over (_safe,_implicit_safe,_default_safe) in {None,True,False}^3')
    if bad:
        run.violation('C07.R2', getter, 'ayns.safe truth table', 'node reported %s for flag valuation %s' % ('safe' if bad[0][1] else 'unsafe', bad[0][0]), witness=bad[:4])
    else:
        run.ok('C07.R2', getter, 'ayns.safe truth table (27 rows)', 'False iff any flag False or source default missing')
    for cname in repo.subclasses('ConfigNode'):
        t = repo.resolve(cname, 'safe', ayns=True)
        if t is not getter:
            run.violation('C07.R2', t, 'override of ayns.safe in %s' % cname, 'safety getter overridden outside ConfigNode')
    # the gate: raises UnsafeError iff not safe
    gate = repo.func('ConfigNode.ayns._require_safe')
    res = {}
    for sv in (True, False):
        o = node_obj('n', _safe=sv)
        f = FDE(repo)
        r = fde_guard(lambda: f.call(gate, o, 'p'))
        res[sv] = r.raised
    if res[False] != 'UnsafeError' or res[True] is not None:
        run.violation('C07.R2', gate, '_require_safe', 'gate outcome safe->%s unsafe->%s (expected None / UnsafeError)' % (res[True], res[False]))
    else:
        run.ok('C07.R2', gate, '_require_safe raises UnsafeError iff not ayns.safe')
    for fi in repo.cha('_require_safe', ayns=True):
        if fi is not gate:
            run.violation('C07.R2', fi, 'override of _require_safe', 'gate overridden in %s' % fi.cls.name)


def r3(repo, run):
    n = 0
    seen = set()
    for cname in repo.subclasses('FunctionNode'):
        fi = repo.classes[cname].ayns.get('on_evaluate_impl')
        if fi is None or cname == 'FunctionNode':
            continue
        ctxp = fi.params()[2]
        for p in tr.paths_of(repo, fi, no_inline=NO_INLINE):
            for i, e in enumerate(p.events):
                child_eval = (tr.is_call(e, attr=('evaluate_node', 'evaluate')) and e.recv is not None and e.recv.text == ctxp) or tr.is_call(e, attr='on_evaluate')
                if not child_eval:
                    continue
                key = (fi.qualname, e.fn, norm(e.node))
                inside = any('require_all_safe(' in w for w in tr.with_stack_at(p, i))
                if key in seen:
                    continue
                seen.add(key)
                n += 1
                if inside:
                    run.ok('C07.R3', tr.where(fi, e), norm(e.node)[:80], 'argument children evaluated inside with ctx.require_all_safe(...)')
                else:
                    run.violation('C07.R3', fi, norm(e.node)[:160], 'argument children are evaluated outside `with ctx.require_all_safe(...)`', node=e.node)
    gw = repo.func('GlobalsWrapper.__getattr__')
    m = 0
    seen = set()
    for p in tr.paths_of(repo, gw):
        for i, e in enumerate(p.events):
            reads_cfg = (e.kind == 'subscr' and e.callee == 'self.ecfg') or \
                        (tr.is_call(e, attr=('evaluate_node', 'get_node', 'get', '__getitem__', 'get_or_set')) and e.recv is not None and e.recv.text in ('self.ecfg', 'self.ctx')) or \
                        (e.kind == 'call' and e.callee == 'getattr' and e.args and e.args[0].text == 'self.ecfg')
            if not reads_cfg:
                continue
            # the value must have been produced while the strict context was open: the read is either an event inside
            # the with, or a return whose value was computed inside it
            stack = tr.with_stack_at(p, i)
            inside = any('require_all_safe(' in w for w in stack)
            key = (e.fn, norm(e.node))
            if key in seen:
                continue
            seen.add(key)
            m += 1
            if inside:
                run.ok('C07.R3', tr.where(gw, e), key[1][:80], 'config value resolved inside with self.ctx.require_all_safe(...)')
            else:
                run.violation('C07.R3', gw, key[1][:160], 'a config value is resolved as a name for evaluated code outside `with ...require_all_safe(...)`', node=e.node)
    if n < 1 or m < 1:
        raise AnalysisError('C07.R3: expected >=1 child evaluation in Call/Bind and >=1 config lookup in GlobalsWrapper (got %d, %d)' % (n, m))
    # the context manager itself
    cm = repo.func('EvalContext.require_all_safe')
    if not cm.is_contextmanager:
        raise AnalysisError('EvalContext.require_all_safe is no longer a contextmanager')
    tries = [s for s in walk_no_nested(cm.node) if isinstance(s, ast.Try)]
    yields = [s for s in walk_no_nested(cm.node) if isinstance(s, ast.Expr) and isinstance(s.value, ast.Yield)]
    ok_shape = False
    detail = ''
    if len(yields) == 1 and tries:
        t = [t for t in tries if any(y in ast.walk(t) for y in yields) and any(y in ast.walk(ast.Module(body=t.body, type_ignores=[])) for y in yields)]
        if t:
            t = t[0]
            # flag set to True before the try, saved value restored in finally
            set_true = None
            saved = None
            for s in cm.node.body:
                if s is t:
                    break
                if isinstance(s, ast.Assign):
                    tg = s.targets[0]
                    if isinstance(tg, ast.Tuple) and isinstance(s.value, ast.Tuple):
                        for a, b in zip(tg.elts, s.value.elts):
                            if unparse(a) == 'self._require_all_safe' and isinstance(b, ast.Constant) and b.value is True:
                                set_true = s
                            if isinstance(a, ast.Name) and unparse(b) == 'self._require_all_safe':
                                saved = a.id
                    else:
                        if unparse(tg) == 'self._require_all_safe' and isinstance(s.value, ast.Constant) and s.value.value is True:
                            set_true = s
                        if isinstance(tg, ast.Name) and unparse(s.value) == 'self._require_all_safe' and set_true is None:
                            saved = tg.id
            restored = any(isinstance(s, ast.Assign) and unparse(s.targets[0]) == 'self._require_all_safe' and
                           isinstance(s.value, ast.Name) and s.value.id == saved for s in t.finalbody)
            ok_shape = bool(set_true) and bool(saved) and restored
            detail = 'set_true=%s saved=%s restored_in_finally=%s' % (bool(set_true), saved, restored)
    if ok_shape:
        run.ok('C07.R3', cm, 'require_all_safe: flag := True before yield, previous value restored in finally', detail)
    elif not detail or detail.startswith('set_true=False saved=None'):
        raise AnalysisError('C07.R3: require_all_safe does not save / set / restore the strict flag in a recognised form (%s)' % (detail or 'no try around the yield'))
    else:
        run.violation('C07.R3', cm, 'require_all_safe save/set/restore', 'strict-mode flag is not set before the yield and restored in a finally block (%s)' % detail)


# ---- R4 -------------------------------------------------------------------------------------------
STRICT = ('self._require_all_safe', 'self._eval_ctx._require_all_safe')
CACHE_RE = r'\._eval_cache(_id)?(\[|\.get\(|\.pop\(|\.setdefault\()'
STORED_RE = r'^(super\(\)|dict|Bunch)\.(__getitem__|get)\('


def _handout_events(p):
    """(index, event, description) for every hand-out of an already evaluated value / every evaluation on path p"""
    out = []
    for i, e in enumerate(p.events):
        if e.kind == 'return' and e.depth == 0 and e.value is not None:
            t = e.value.text
            if re.search(CACHE_RE, t) and '_eval_cache_unsafe' not in t.replace('_eval_cache_unsafe', '') or re.search(r'\._eval_cache(_id)?\[', t):
                out.append((i, e, 'returns cached value ' + t[:80]))
            elif re.search(STORED_RE, t):
                out.append((i, e, 'returns stored evaluated value ' + t[:80]))
        if tr.is_call(e, attr='on_evaluate') and e.callee.endswith('.ayns.on_evaluate'):
            out.append((i, e, 'evaluates ' + e.callee[:60]))
    return out


def _safe_on_path(p, i, gated):
    strict = [pol for t, pol in p.events[i].facts if t in STRICT]
    facts = p.events[i].facts
    if not strict:
        return False, 'strict mode is not consulted on this path'
    if not any(strict):
        return True, 'not in strict mode'
    if any(t.endswith('.ayns.safe') and pol for t, pol in facts):
        return True, 'strict and the source node tested safe'
    if any('_eval_cache_unsafe' in t and ' in ' in t and pol is False for t, pol in facts):
        return True, 'strict and the path is not recorded as unsafe'
    if any((e.kind == 'call' and (e.callee or '').startswith(('self._eval_cache_unsafe.', 'self._eval_ctx._eval_cache_unsafe.'))) or
           (e.kind == 'subscr' and (e.callee or '').endswith('._eval_cache_unsafe')) or
           (e.kind == 'iter' and (e.callee or '') in ('self._eval_cache_unsafe', 'self._eval_ctx._eval_cache_unsafe')) for e in p.events[:i]) or \
            any('each(self._eval_cache_unsafe' in t for t, _ in facts):
        return True, 'strict and the record of unsafe paths is scanned before the hand-out (what the scan rejects is decided by R4c)'
    REC = ('self._eval_cache_unsafe', 'self._eval_ctx._eval_cache_unsafe')
    if any((t in REC and pol is False) or (t in ['not ' + x for x in REC] and pol is True) or (t in ['len(%s)' % x for x in REC] and pol is False)
           or (t in ['len(%s) == 0' % x for x in REC] and pol is True) or (t in ['len(%s) > 0' % x for x in REC] + ['len(%s) != 0' % x for x in REC] and pol is False) for t, pol in facts):
        return True, 'strict and the record of unsafe paths is empty: nothing evaluated so far came from an unsafe node (what is recorded is decided by R4b)'
    for e in p.events[:i]:
        if e.kind == 'call' and e.attr in ('get_node', 'evaluate_node') and e.recv is not None and e.recv.text in ('self._eval_ctx', 'self') and ('EvalContext.' + e.attr) in gated:
            return True, 'strict and a gated lookup (%s) precedes' % e.callee
    return False, 'strict mode without a safety test of the source node'


def r4(repo, run):
    fns = [f for f in repo.all_functions(include_nested=False) if f.cls is not None and f.cls.name in ('EvalContext', 'EvalContext.PartialChild')]
    gated = set()
    total = 0
    results = {}
    for rnd in range(2):
        for fi in fns:
            try:
                paths = tr.paths_of(repo, fi, no_inline={'evaluate_node', 'get_node', 'on_evaluate'} - {fi.name})
            except AnalysisError:
                continue
            hs = []
            for p in paths:
                for i, e, desc in _handout_events(p):
                    ok, why = _safe_on_path(p, i, gated)
                    hs.append((ok, why, e, desc, p))
            if hs and all(h[0] for h in hs):
                gated.add(fi.qualname)
            results[fi.qualname] = (fi, hs)
    seen = set()
    for q, (fi, hs) in sorted(results.items()):
        by_desc = {}
        for ok, why, e, desc, p in hs:
            by_desc.setdefault(desc, []).append((ok, why, e, p))
        for desc, items in by_desc.items():
            total += 1
            badi = [x for x in items if not x[0]]
            if badi:
                ok, why, e, p = badi[0]
                run.violation('C07.R4', fi, desc, 'an already evaluated value is handed out (or a node evaluated) on a path [%s] where %s' % (tr.describe(p), why), node=e.node)
            else:
                run.ok('C07.R4', tr.where(fi, items[0][2]), desc, '; '.join(sorted({x[1] for x in items})))
    if total < 4:
        raise AnalysisError('C07.R4: expected >= 4 hand-out points in EvalContext (got %d)' % total)
    run.floors['C07.R4'] = 4
    # R4b: the unsafe-path record
    ev = repo.func('EvalContext.evaluate_node')
    uses_record = any('_eval_cache_unsafe' in unparse(f.node) for f in fns if f.name in ('get_node', '__getitem__'))
    if not uses_record:
        run.info('C07.R4b', ev, 'no unsafe-path record in use', 'gates test the node directly')
        return
    paths = tr.paths_of(repo, ev, no_inline={'get_node', 'on_evaluate'})
    n = 0
    for p in paths:
        stores = {}
        for e in p.events:
            if e.kind == 'store':
                m = re.match(r'^self\.(_eval_cache\w*)\[(.*)\]$', e.target)
                if m:
                    stores.setdefault(m.group(1), []).append((m.group(2), e))
        if '_eval_cache' not in stores:
            continue
        n += 1
        node = ev.params()[1]
        unsafe = (node + '.ayns.safe', False) in p.facts
        safe = (node + '.ayns.safe', True) in p.facts
        key_c = stores['_eval_cache'][0][0]
        rec = stores.get('_eval_cache_unsafe', [])
        if rec and rec[0][0] != key_c:
            run.violation('C07.R4b', ev, 'self._eval_cache_unsafe[%s]' % rec[0][0][:60], 'unsafe-path record keyed differently from the path cache (%s)' % key_c[:60], node=rec[0][1].node)
            return
        if unsafe and not rec:
            run.violation('C07.R4b', ev, 'store into _eval_cache_unsafe', 'an unsafe node is cached on a path [%s] without recording its path as unsafe: the strict-mode gate of get_node lets the cached value through' % tr.describe(p), node=stores['_eval_cache'][0][1].node)
            return
        if rec and not unsafe and safe:
            run.violation('C07.R4b', ev, 'store into _eval_cache_unsafe', 'a safe node is recorded as unsafe', node=rec[0][1].node)
            return
        if rec and not unsafe and not safe:
            run.violation('C07.R4b', ev, 'store into _eval_cache_unsafe', 'the unsafe-path record is written without testing the safety of the node on this path', node=rec[0][1].node)
            return
    if n < 1:
        raise AnalysisError('C07.R4b: no path of evaluate_node stores into the path cache')
    run.ok('C07.R4b', ev, 'self._eval_cache_unsafe[key] = node exactly on the paths where the node is not safe (%d caching paths)' % n, 'same key as the path cache')


# ---- R5 -------------------------------------------------------------------------------------------
def r5(repo, run):
    for fname in ('ConfigNode._replace_self', 'ConfigNode._replace_other'):
        fi = repo.func(fname)
        rows = 0
        bad = []
        for fld in ('_safe', '_default_safe'):
            for a in F3:
                for b in F3:
                    me = node_obj('self', **{'_default_safe': None, fld: a})
                    ot = node_obj('other', **{'_default_safe': None, fld: b})
                    f = FDE(repo)
                    fde_guard(lambda: f.call(fi, me, ot, allow_promotions=False))
                    rows += 1
                    new = me.f[fld]
                    if (a is False or b is False) and new is not False:
                        bad.append((fld, a, b, new))
        run.table('C07.R5:' + fi.name, rows, 'new(self.f) for f in {_safe,_default_safe}, (self.f, other.f) in {None,True,False}^2')
        if bad:
            fld, a, b, new = bad[0]
            run.violation('C07.R5', fi, '%s merge of %s' % (fi.name, fld),
                          'not monotone in unsafety: self.%s=%r, other.%s=%r gives %r (must be False)' % (fld, a, fld, b, new), witness=bad)
        else:
            run.ok('C07.R5', fi, '%s: _safe and _default_safe tables (18 rows)' % fi.name, 'False whenever either side is False')
    # promotion: when the other node is promoted (it takes over the survivor's state: other.__dict__.update(self.__dict__)) the node
    # that is returned must still be unsafe whenever either operand was
    for fname in ('ConfigNode._replace_self', 'ConfigNode._replace_other'):
        fi = repo.func(fname)
        bad = []
        rows = 0
        for fld in ('_safe', '_default_safe'):
            for a in F3:
                for b in F3:
                    me = node_obj('self', 'ConfigDict', **{'_default_safe': None, fld: a})
                    ot = node_obj('other', 'CallNode', **{'_default_safe': None, fld: b})

                    def promote(name, recv, args, kwargs):
                        if name != '_maybe_promote':
                            return recv
                        o = args[0]
                        o.f.update({k: v for k, v in recv.f.items() if k != '_children'})
                        return o
                    f = FDE(repo, stubs={'_maybe_promote', '_propagate_implicit_values', '_propagate_priority'}, stub=promote)
                    r = fde_guard(lambda: f.call(fi, me, ot, allow_promotions=True))
                    rows += 1
                    ret = r.ret if isinstance(r.ret, Obj) else me
                    if (a is False or b is False) and ret.f.get(fld) is not False:
                        bad.append((fld, a, b, ret.name, ret.f.get(fld)))
        run.table('C07.R5:promotion:' + fi.name, rows, 'returned node after promotion of the other operand')
        if bad:
            fld, a, b, who, new = bad[0]
            run.violation('C07.R5', fi, '%s with promotion' % fi.name, 'not monotone in unsafety when the other node is promoted: self.%s=%r, other.%s=%r returns %s with %s=%r (must be False): the flags are combined after the promoted node took over the survivor\'s state' % (fld, a, fld, b, who, fld, new), witness=[str(x) for x in bad[:5]])
        else:
            run.ok('C07.R5', fi, '%s with promotion of the other operand (%d rows)' % (fi.name, rows), 'the returned node is unsafe whenever either operand was')
    for cname in repo.subclasses('ConfigNode', strict=True):
        for m in ('_replace_self', '_replace_other'):
            t = repo.resolve(cname, m)
            if t.cls.name != 'ConfigNode':
                run.violation('C07.R5', t, 'override of ' + m, 'flag combination overridden in %s' % cname)


# ---- R6 -------------------------------------------------------------------------------------------
def _open_withs(p, i):
    """with_enter events that are open at event index i"""
    stack = []
    for e in p.events[:i]:
        if e.kind == 'with_enter':
            stack.append(e)
        elif e.kind == 'with_exit' and stack:
            stack.pop()
    return stack


def r6(repo, run):
    from ..fde import Yielded
    add = repo.func('Builder.add_source')
    paths = tr.paths_of(repo, add)
    n = 0
    reported = set()
    sp = add.params()
    if 'safe' not in sp:
        raise AnalysisError('Builder.add_source has no `safe` parameter')
    for p in paths:
        for i, e in enumerate(p.events):
            if not (e.kind == 'call' and e.callee in ('yaml.parse', 'parse')):
                continue
            n += 1
            ws = [w for w in _open_withs(p, i) if w.callee.startswith('ConfigNode.default_safe_flag(')]
            key = None
            if not ws:
                key = ('parse outside default_safe_flag', 'documents are parsed outside `with ConfigNode.default_safe_flag(...)`', e)
            else:
                call = ws[-1].value.ast
                arg = call.args[0] if isinstance(call, ast.Call) and call.args else None
                conj = arg.values if isinstance(arg, ast.BoolOp) and isinstance(arg.op, ast.And) else [arg]
                if isinstance(arg, ast.BoolOp) and isinstance(arg.op, ast.Or):
                    key = ('default_safe_flag(%s)' % norm(arg), 'source safety is a disjunction: a source added with safe=False is parsed as safe when the builder default is True', ws[-1])
                elif any(isinstance(v, ast.Name) and v.id == 'safe' for v in conj):
                    pass        # the caller's flag is a conjunct
                elif ('safe is None', True) in p.facts:
                    pass        # the caller passed nothing: defaulted
                else:
                    key = ('default_safe_flag(%s)' % norm(arg), 'on the path [%s] the `safe` argument of the caller does not reach ConfigNode.default_safe_flag as a conjunct: a source added with safe=False is stamped with %s' % (tr.describe(p), norm(arg)), ws[-1])
            if key and key[0] not in reported:
                reported.add(key[0])
                run.violation('C07.R6', add, key[0], key[1], node=key[2].node)
    if n < 1:
        raise AnalysisError('Builder.add_source never reaches yaml.parse')
    # every document add_source adds was parsed by this very call (under this call's flag): a path that adds stages without parsing
    # hands out documents stamped with the safety of whoever parsed them first
    for p in paths:
        if p.status != 'return' or any(e.kind == 'call' and e.callee in ('yaml.parse', 'parse') for e in p.events):
            continue
        adds = [e for e in p.events if e.kind == 'call' and e.attr in ('append', 'extend', 'insert') and e.recv is not None and e.recv.text.endswith('.stages')]
        if adds and 'stages-without-parse' not in reported:
            reported.add('stages-without-parse')
            run.violation('C07.R6', tr.where(add, adds[0]), norm(adds[0].node)[:90], 'on the path [%s] add_source adds documents without parsing them in this call (%s): they keep the safety flag of the call that parsed them first - a file read once from a safe place comes out safe when an unsafe source includes it later' % (tr.describe(p, 3), adds[0].args[-1].text[:50] if adds[0].args else ''), node=adds[0].node)
    if not reported:
        run.ok('C07.R6', add, 'yaml.parse(...) inside with ConfigNode.default_safe_flag(<safe and ...>)', 'the caller\'s safe flag is a conjunct on every path (%d parsing paths); defaulted only when None' % n)
    # the context manager: value installed while the body runs
    dsf = repo.func('ConfigNode.default_safe_flag')
    bad = []
    for value in (True, False):
        for old in (True, False, 'unset'):
            f = FDE(repo)
            slot = Obj('slot', 'object')
            if old != 'unset':
                slot.f['value'] = old
            else:
                slot.missing.add('value')
            f.class_objs[('ConfigNode', '_default_safe')] = slot
            try:
                fde_guard(lambda: f.call(dsf, value))
                raise AnalysisError('default_safe_flag does not yield')
            except Yielded:
                pass
            got = slot.f.get('value')
            enclosing = True if old == 'unset' else old
            if (value is False or enclosing is False) and got is not False:
                bad.append((value, old, got))
            if value is True and enclosing is True and got is not True:
                bad.append((value, old, got))
    run.table('C07.R6:default_safe_flag', 6, 'installed default over (requested, enclosing) incl. first use')
    if bad:
        run.violation('C07.R6', dsf, 'default installed by default_safe_flag', 'while the body runs the default is %r for requested=%r, enclosing=%r (must be False if either is False, True otherwise)' % (bad[0][2], bad[0][0], bad[0][1]), witness=bad)
    else:
        run.ok('C07.R6', dsf, 'default_safe_flag installs (requested and enclosing) before yielding (6 rows)')
    # sources added by node classes carry safe= derived from a node's ayns.safe
    n_calls = 0
    # entry points: the preprocess / evaluate implementations of node classes defined in modules that add sources anywhere
    # (in the method itself, a local closure or a private helper - all of which the tracer inlines)
    adders = {}
    for cn in ('Builder', 'SubBuilder'):
        if cn in repo.classes:
            for nm, mf in repo.classes[cn].methods.items():
                if ('safe' in mf.params() or any(a_.arg == 'safe' for a_ in mf.node.args.kwonlyargs)) and not nm.startswith('__'):
                    adders.setdefault(nm, mf)
    # every other builder method that takes a `safe` flag applies it to whatever it adds: each document it adds comes from a
    # source-adding call that receives this very flag (nothing is added that was parsed under somebody else's flag)
    for nm, mf in sorted(adders.items()):
        if nm == 'add_source' or only_reached_from(repo, mf.qualname, {add.qualname}):
            continue        # (private helpers of add_source are part of its paths above)
        n_add = 0
        for p in tr.paths_of(repo, mf, no_inline=NO_INLINE | (set(adders) - {nm}), follow_exceptions=False):
            if p.status != 'return':
                continue
            for e in p.events:
                if e.kind == 'call' and e.attr in adders and e.attr != nm:
                    n_add += 1
                    sv = e.kw.get('safe')
                    if sv is None and isinstance(e.node, ast.Call) and (any(k_.arg is None for k_ in e.node.keywords) or any(isinstance(a_, ast.Starred) for a_ in e.node.args)):
                        # the options travel as **mapping / *sequence: which value `safe` gets is decided by evaluation
                        # (unitrules.add_multiple_sources_table), not read off the call
                        continue
                    if sv is None or not any(isinstance(x_, ast.Name) and x_.id == 'safe' for x_ in ast.walk(sv.ast)):
                        run.violation('C07.R6', tr.where(mf, e), norm(e.node)[:90], 'Builder.%s adds a source with safe=%s: its own `safe` argument is not what the source is parsed under' % (nm, sv.text[:40] if sv is not None else '<nothing>'), node=e.node)
                        break
                elif e.kind == 'call' and e.attr in ('append', 'extend', 'insert') and e.recv is not None and e.recv.text.endswith('.stages'):
                    n_add += 1
                    run.violation('C07.R6', tr.where(mf, e), norm(e.node)[:90], 'on the path [%s] Builder.%s adds documents that were not parsed under its `safe` argument (%s): they keep the safety of whoever parsed them first, so content included from an unsafe place can come out as safe' % (tr.describe(p, 3), nm, e.args[-1].text[:50] if e.args else ''), node=e.node)
                    break
            else:
                continue
            break
        else:
            if n_add:
                run.ok('C07.R6', mf, 'Builder.%s: every source it adds receives its safe flag' % nm)
    entries = [f for f in repo.cha('on_preprocess_impl', ayns=True) + repo.cha('on_evaluate_impl', ayns=True)
               if f.cls is not None and any(a_ in f.module.text for a_ in adders)]
    todo = []
    for f in entries:
        try:
            todo.append((f, tr.paths_of(repo, f, no_inline=NO_INLINE | {'on_evaluate_impl'})))
        except AnalysisError:
            continue
    for fi, ps in todo:
        seen = set()
        for p in ps:
            for e in p.events:
                if e.kind == 'call' and e.attr in adders:
                    k = norm(e.node)
                    if k in seen:
                        continue
                    seen.add(k)
                    n_calls += 1
                    sv = e.kw.get('safe')
                    if sv is None:
                        run.violation('C07.R6', fi, k, 'node class adds a source without passing safe=', node=e.node)
                    elif '.ayns.safe' in sv.text:
                        run.ok('C07.R6', tr.where(fi, e), k[:90], 'safe= derives from a node ayns.safe (%s)' % sv.text[:60])
                    else:
                        run.violation('C07.R6', fi, k, 'safe= argument (%s) does not derive from a node\'s ayns.safe' % sv.text[:80], node=e.node)
    if n_calls < 2:
        raise AnalysisError('C07.R6: expected add_source calls in IncludeNode and RecurseNode (got %d)' % n_calls)


# ---- R4c ------------------------------------------------------------------------------------------
def r4c(repo, run):
    """EvalContext.get_node evaluated (finite-domain evaluator) over cached paths x paths recorded as unsafe: when the context
    requires all nodes to be safe, a cached value is handed out only if neither the path itself nor any path below it was produced
    from an unsafe node (the cached value of a container holds what its descendants evaluated to)"""
    fi = repo.func('EvalContext.get_node')
    rows = 0
    bad = []
    miss = None
    cached = {'p': 'P', 'p.s': 'S', 'p.s.u': 'U', 'pp': 'PP', 'q': 'Q', 'l': 'L', 'l[0]': 'L0', 'l[1]': 'L1'}
    for unsafe in ([], ['p.s'], ['p.s.u'], ['l[0]'], ['q'], ['pp'], ['p.s', 'l[1]']):
        for query in ('p', 'p.s', 'pp', 'q', 'l', 'l[1]'):
            for strict in (True, False):
                ctx = Obj('ctx', 'EvalContext', _eval_cache=dict(cached), _eval_cache_unsafe={u: node_obj('unsafe_' + u, 'ConfigNode') for u in unsafe},
                          _require_all_safe=strict, _cfg=node_obj('cfg', 'ConfigDict'))
                import re as _re
                from ..fde import PathVal
                comps = [int(x[1:-1]) if x.startswith('[') else x for x in _re.findall(r'\[\d+\]|[^.\[\]]+', query)]
                f = FDE(repo, stubs={'get_list_path', 'get_node'}, stub=lambda name, recv, args, kwargs, q=query, comps=comps: PathVal(comps, q) if name == 'get_list_path' else 'LOOKED-UP-IN-THE-TREE')
                r = fde_guard(lambda: f.call(fi, ctx, query))
                rows += 1
                below = any(u == query or u.startswith(query + '.') or u.startswith(query + '[') for u in unsafe)
                want_raise = strict and below
                if bool(r.raised) != want_raise:
                    bad.append((query, unsafe, strict, r.raised, r.ret))
                elif not r.raised and r.ret != cached[query]:
                    bad.append((query, unsafe, strict, 'returns', r.ret))
                    if r.ret == 'LOOKED-UP-IN-THE-TREE':
                        miss = query
    run.table('C07.R4c', rows, 'EvalContext.get_node over cached paths x unsafe paths x strict')
    if bad:
        q, u, st, rz, rt = bad[0]
        if miss is not None:
            why = 'the path %r was evaluated (its value is in the by-path cache) but get_node does not find it there and looks it up in the static tree: the cache is keyed by the text of the path - nodes that exist only as evaluation results (content pulled in by !rec) cannot be referenced, and the strict gate is bypassed' % miss
        elif st and not rz:
            why = 'in a context that requires all nodes to be safe the cached value of %r is handed out although %s below it was evaluated from an unsafe node: `fn: !call:f {x: !xref p}` with `p: {s: !unsafe 1}` passes the unsafe value to f' % (q, u)
        else:
            why = 'get_node(%r) with unsafe paths %s (strict=%s): %s %r' % (q, u, st, rz or 'returns', rt)
        run.violation('C07.R4c', fi, 'strict gate of the path cache', why, witness=[str(b)[:200] for b in bad[:5]])
    else:
        run.ok('C07.R4c', fi, 'strict gate of the path cache (%d rows)' % rows, 'raises iff the path or a path below it is recorded as unsafe; siblings with a common name prefix unaffected')


# ---- R7 -------------------------------------------------------------------------------------------
def r7(repo, run):
    # (1) metaclass adopt branch, evaluated: ConfigNode(<existing node>, implicit_safe=v) never re-enables a node that is
    #     already implicitly unsafe, and installs v otherwise
    mc = repo.func('ConfigNodeMeta.__call__')
    bad1 = []
    rows1 = 0
    for ci in F3:
        for v in (True, False, None):
            value = node_obj('value', 'ComposedNode', _children={}, _implicit_safe=ci)
            f = FDE(repo)
            r = fde_guard(lambda: f.call(mc, ('class', 'ConfigNode'), value, implicit_safe=v))
            rows1 += 1
            if r.raised or r.ret is not value:
                raise AnalysisError('C07.R7: adoption of an existing node through ConfigNode(value, implicit_safe=...) not evaluable (raised %s)' % r.raised)
            got = value.f.get('_implicit_safe')
            want = False if ci is False else v
            if got is not want:
                bad1.append((ci, v, got, want))
    run.table('C07.R7:adoption', rows1, '(child._implicit_safe, implicit_safe handed over on adoption)')
    if bad1:
        ci, v, got, want = bad1[0]
        run.violation('C07.R7', mc, 'adoption of an already built child', 'a child whose inherited safety is %r adopted with implicit_safe=%r ends up with %r (expected %r) - an unsafe child re-attached under a safe parent becomes safe' % (ci, v, got, want), witness=[str(x) for x in bad1])
    else:
        run.ok('C07.R7', mc, 'adoption table (%d rows)' % rows1, 'implicit_safe is installed on adoption unless the child is already implicitly unsafe')
    # (2) _propagate_implicit_values: table over (parent _safe None, parent implicit, child implicit)
    prop = repo.func('ComposedNode._propagate_implicit_values')
    bad = []
    rows = 0
    for pi in F3:
        for ci in F3:
            for pd in (None, True):
                for ps in F3:
                    for pe in (None, True):     # other explicit flags of the parent
                        child = node_obj('child', 'ConfigNode', _implicit_safe=ci)
                        parent = node_obj('parent', 'ComposedNode', _safe=ps, _delete=pe, _allow_new=pe, _implicit_safe=pi, _implicit_delete=pd, _children={'k': child})
                        f = FDE(repo)
                        fde_guard(lambda: f.call(prop, parent))
                        rows += 1
                        if ci is False and child.f['_implicit_safe'] is not False:
                            bad.append(('child False overwritten', ps, pi, ci, child.f['_implicit_safe']))
                        if pi is False and child.f['_implicit_safe'] is not False:
                            bad.append(('inherited unsafety of a parent with explicit safe=%r does not reach its child' % ps, pi, ci, child.f['_implicit_safe']))
    run.table('C07.R7:_propagate_implicit_values', rows, '(parent._implicit_safe, child._implicit_safe, parent._implicit_delete)')
    if bad:
        run.violation('C07.R7', prop, '_propagate_implicit_values on _implicit_safe', 'child flag after propagation: %s' % (bad[0],), witness=bad)
    else:
        run.ok('C07.R7', prop, '_propagate_implicit_values: child False stays False, parent False reaches the child (%d rows)' % rows)
    # (3) _get_child_kwargs
    gk = repo.func('ComposedNode._get_child_kwargs')
    bad = []
    rows = 0
    for ps in F3:
        for pi in F3:
            for ci in F3:
                child = node_obj('child', 'ConfigNode', _implicit_safe=ci)
                parent = node_obj('parent', 'ComposedNode', _safe=ps, _implicit_safe=pi)
                f = FDE(repo)
                r = fde_guard(lambda: f.call(gk, parent, child))
                rows += 1
                kw = r.ret
                if ci is False and 'implicit_safe' in kw and kw['implicit_safe'] is not False:
                    bad.append((ps, pi, ci, kw.get('implicit_safe')))
            # new child: unsafety of the parent must be handed down
            parent = node_obj('parent', 'ComposedNode', _safe=ps, _implicit_safe=pi)
            f = FDE(repo)
            r = fde_guard(lambda: f.call(gk, parent))
            rows += 1
            if (ps is False or pi is False) and r.ret.get('implicit_safe') is not False:
                bad.append(('new child of a node with explicit safe=%r whose inherited flag is %r' % (ps, pi), ps, pi, r.ret.get('implicit_safe')))
    run.table('C07.R7:_get_child_kwargs', rows, '(parent._safe, parent._implicit_safe, child._implicit_safe)')
    if bad:
        run.violation('C07.R7', gk, '_get_child_kwargs implicit_safe', 'adoption would overwrite / lose unsafety: %s' % (bad[0],), witness=bad)
    else:
        run.ok('C07.R7', gk, '_get_child_kwargs: never re-enables a child that is implicitly unsafe; unsafe parent yields implicit_safe=False (%d rows)' % rows)
    # (4) any other store to _implicit_safe
    allowed = {'ConfigNode.__init__', 'ComposedNode._propagate_implicit_values'}
    for fi in repo.all_functions():
        for s in walk_no_nested(fi.node):
            if isinstance(s, (ast.Assign, ast.AugAssign)):
                tg = s.targets if isinstance(s, ast.Assign) else [s.target]
                for t in tg:
                    if isinstance(t, ast.Attribute) and t.attr == '_implicit_safe' and not only_reached_from(repo, fi.qualname, allowed):
                        run.violation('C07.R7', fi, unparse(s), 'write to _implicit_safe outside the checked flag-maintenance functions', node=s)


def check(repo, run, tier):
    g = Guard()
    tr.reset()
    covered = g(r1, repo, run)
    if covered is not None:
        g(r1b, repo, run, covered)
    g(r2, repo, run)
    g(r3, repo, run)
    g(r4, repo, run)
    g(r4c, repo, run)
    g(r5, repo, run)
    g(r6, repo, run)
    g(r7, repo, run)
    g(mr.propagation_table, repo, run, 'C07.R7', 'safe')
    g(unitrules.node_init_table, repo, run, 'C07.R6')
    g(unitrules.strict_block_errors, repo, run, 'C07.R3')
    g(unitrules.add_multiple_sources_table, repo, run, 'C07.R6')
    g(unitrules.promotion_keeps_safety, repo, run, 'C07.R5')
    g.done()


def mutants(repo):
    return [
        Mutant('multiple-sources-pass-the-whole-flag-list', lambda r: in_func(r, 'Builder.add_multiple_sources', "self.add_source(source, raw_yaml=raw, filename=fname, safe=sflag)", "self.add_source(source, raw_yaml=raw, filename=fname, safe=safe)"), ['C07.R6']),
        Mutant('path-cache-probed-with-the-path-object', lambda r: in_func(r, 'EvalContext.get_node', "        if str(path) in self._eval_cache:", "        if path in self._eval_cache:"), ['C07.R4c']),
        Mutant('multiple-sources-drop-safe', lambda r: in_func(r, 'Builder.add_multiple_sources', "self.add_source(source, raw_yaml=raw, filename=fname, safe=sflag)", "self.add_source(source, raw_yaml=raw, filename=fname)"), ['C07.R6']),
        Mutant('unsafe-error-swallowed-in-strict-block', lambda r: in_func(r, 'EvalContext.require_all_safe', "        except errors.UnsafeError as e:\n            raise errors.EvalError(", "        except errors.UnsafeError as e:\n            pass\n        except ZeroDivisionError as e:\n            raise errors.EvalError("), ['C07.R3']),
        Mutant('F20-reverted-descendants-unchecked', lambda r: in_func(r, 'EvalContext.get_node', "if not path or unsafe_path == str(path) or unsafe_path.startswith(str(path) + '.') or unsafe_path.startswith(str(path) + '['):", "if unsafe_path == str(path):"), ['C07.R4c']),
        Mutant('call-gate-removed', lambda r: delete_stmt(r, 'CallNode.ayns.on_evaluate_impl', lambda t: '_require_safe' in t), ['C07.R1']),
        Mutant('import-gate-removed', lambda r: delete_stmt(r, 'ImportNode.ayns.on_evaluate_impl', lambda t: '_require_safe' in t), ['C07.R1']),
        Mutant('eval-gate-after-compile', lambda r: in_func(r, 'EvalNode.ayns.on_evaluate_impl', "        self.ayns._require_safe(path)\n", "", 1), ['C07.R1']),
        Mutant('bind-args-outside-strict', lambda r: in_func(r, 'BindNode.ayns.on_evaluate_impl',
               "        with ctx.require_all_safe(self, path):\n            args = ", "        if True:\n            args = "), ['C07.R3']),
        Mutant('globals-lookup-outside-strict', lambda r: in_func(r, 'GlobalsWrapper.__getattr__',
               "            with self.ctx.require_all_safe(self.node, self.path):\n                return self.ecfg[name]", "            return self.ecfg[name]"), ['C07.R3']),
        Mutant('strict-flag-not-restored', lambda r: in_func(r, 'EvalContext.require_all_safe', "            self._require_all_safe = old", "            pass"), ['C07.R3']),
        Mutant('cache-hit-before-gate', lambda r: in_func(r, 'EvalContext.evaluate_node',
               "        if self._require_all_safe:\n            if not cfgobj.ayns.safe:", "        if self._require_all_safe and id(cfgobj) not in self._eval_cache_id:\n            if not cfgobj.ayns.safe:"), ['C07.R4']),
        Mutant('get_node-gate-dropped', lambda r: in_func(r, 'EvalContext.get_node', "            if self._require_all_safe:\n", "            if False:\n"), ['C07.R4']),
        Mutant('partialchild-gate-dropped', lambda r: delete_stmt(r, 'EvalContext.PartialChild.__getitem__', lambda t: t.startswith('if self._eval_ctx._require_all_safe')), ['C07.R4']),
        Mutant('unsafe-record-inverted', lambda r: in_func(r, 'EvalContext.evaluate_node', "if not cfgobj.ayns.safe:\n            self._eval_cache_unsafe", "if cfgobj.ayns.safe:\n            self._eval_cache_unsafe"), ['C07.R4b']),
        Mutant('replace-self-default-safe-F2-reverted', lambda r: in_func(r, 'ConfigNode._replace_self',
               "self._default_safe = notnone_or(self._default_safe, True)", "self._default_safe = notnone_or(other._default_safe, True)"), ['C07.R5']),
        Mutant('replace-other-and-to-or', lambda r: in_func(r, 'ConfigNode._replace_other',
               "self._safe = notnone_or(self._safe, True) and other._safe", "self._safe = notnone_or(self._safe, True) or other._safe"), ['C07.R5']),
        Mutant('safe-getter-default-true', lambda r: in_func(r, 'ConfigNode.ayns.safe', "notnone_or(self._default_safe, False)", "notnone_or(self._default_safe, True)"), ['C07.R2']),
        Mutant('include-drops-safe', lambda r: in_func(r, 'IncludeNode.ayns.on_preprocess_impl', ", safe=self.ayns.safe)", ")"), ['C07.R6']),
        Mutant('source-flag-or', lambda r: in_func(r, 'ConfigNode.default_safe_flag', "value and old", "value or old"), ['C07.R6']),
        Mutant('add_source-ignores-safe', lambda r: in_func(r, 'Builder.add_source', "default_safe_flag(safe and self._default_safe_flag)", "default_safe_flag(self._default_safe_flag)"), ['C07.R6']),
        Mutant('promotion-forgets-source-level-safety', lambda r: in_func(r, 'ConfigNode._maybe_promote', "                other.update(self)\n            other.__dict__.update(self.__dict__)", "                other.update(self)\n            other.__dict__.update({k: v for k, v in self.__dict__.items() if k != '_default_safe'})"), ['C07.R5']),
        Mutant('adopt-overwrites-implicit-safe', lambda r: in_func(r, 'ConfigNodeMeta.__call__',
               "if arg_name == 'implicit_safe' and getattr(value, '_' + arg_name) is False:", "if False:"), ['C07.R7']),
        Mutant('F18-reverted-explicit-safe-lifts-unsafety', lambda r: in_func(r, 'ComposedNode._get_child_kwargs', "False if self._implicit_safe is False else notnone_or(self._safe, self._implicit_safe)", "notnone_or(self._safe, self._implicit_safe)"), ['C07.R7']),
        Mutant('F18-reverted-propagation-stops-at-explicit-safe', lambda r: in_func(r, 'ComposedNode._propagate_implicit_values', "if self._safe is None or self._implicit_safe is False:", "if self._safe is None:"), ['C07.R7']),
        Mutant('propagate-overwrites-false', lambda r: in_func(r, 'ComposedNode._propagate_implicit_values', "if child._implicit_safe is not False:", "if True:"), ['C07.R7']),
        Mutant('neutral-rename-local', lambda r: in_func(r, 'CallNode.ayns.on_evaluate_impl', "_func", "_target", None), neutral=True),
        Mutant('neutral-extra-logging', lambda r: in_func(r, 'EvalContext.evaluate_node', "        self._eval_stack.append(prefix)\n", "        self._eval_stack.append(prefix)\n        _dbg = len(self._eval_stack)\n"), neutral=True),
    ]
