"""C12 - !eval and f-strings compute what Python computes, with config names visible (structural clauses only)."""
import ast
import dis as _dis
import os

from .. import cfg as cfgmod
from .. import shared
from ..mutate import Mutant, in_func, delete_stmt, in_module
from ..report import AnalysisError
from ..srcmodel import unparse, norm, walk_no_nested, calls_in
from .common import cfg_of, is_method_call, get_kw, facts_at, find_stmt_node, name_defs, derives_from

PROP = 'C12'
DECIDED = [
    'R1: per-build objects do not escape into process-global state: every write to interpreter / class / module-level state made by evaluation code (eval.py, fstr.py, eval_context.py) is reported unless it is the documented configuration API; R1b: the globals wrapper (which captures the build\'s context) is installed on every path before the code runs and removed before the namespace can be cached; symbols are copied per context.',
    'R2: GlobalsWrapper.__getattr__ is a decision list over, in this order, the code\'s own globals (definitions + symbols), the config, the builtins, then NameError; symbols are merged into the globals before the code runs.',
    'R3: compile/exec/eval of user code sit in a try whose catch-all handler raises EvalError(...) from the caught exception.',
    'R4: the file name handed to compile() cannot be None (the node\'s source file is optional by construction).',
    'R5: operand encoding follows the interpreter in use: every opcode whose name operand is shifted according to this interpreter\'s dis.py and that the bytecode patcher decodes or emits is shifted by the patcher too.',
    'R7: offset-bearing code attributes (co_exceptiontable) are not passed verbatim to the rebuilt code object when instructions were inserted; R8: operands are not read / written as single bytes without EXTENDED_ARG handling (both currently violated: known findings).',
    'R6: the patcher recurses into nested code objects (co_consts) before any early return that depends on the outer code object\'s names.',
]
UNDECIDED = ['correctness of the bytecode translation for all programs and CPython versions (jump fix-ups, exception tables, EXTENDED_ARG);', 'f-string normalisation; numerical results.']
TRUSTED = ['dis.py of the interpreter that runs the check (same /venv interpreter the repo runs on)']
EVAL_FILES = ('awesomeyaml/nodes/eval.py', 'awesomeyaml/nodes/fstr.py', 'awesomeyaml/eval_context.py')
R1_EXEMPT = {('EvalContext.set_default_eval_symbols', 'EvalContext._default_eval_symbols'): 'explicit process-wide configuration API'}


def r1(repo, run):
    fns = [f for f in repo.all_functions() if f.file in EVAL_FILES]
    n = 0
    for w in shared.shared_writes(repo, fns):
        top = w.fi
        while top.outer is not None:
            top = top.outer
        n += 1
        where = (w.fi.file, w.node.lineno, w.fi.qualname)
        if (top.qualname, w.root[1]) in R1_EXEMPT:
            run.ok('C12.R1', where, w.text(), 'exempt: ' + R1_EXEMPT[(top.qualname, w.root[1])])
        elif w.kind.startswith('maybe-'):
            run.info('C12.R1', where, w.text(), 'write through a name that may alias %s (the cached namespace); part of the persistent-namespace finding' % w.root[1])
        else:
            run.violation('C12.R1', w.fi, w.text(), 'evaluation code stores per-build state in process-global state (%s %s): a later build in the same process sees objects (context, config, symbols) of an earlier one' % w.root, node=w.node)
    if n < 2:
        raise AnalysisError('C12.R1: shared-write inventory of the evaluation modules found %d writes' % n)
    # symbols are copied per context
    init = repo.func('EvalContext.__init__')
    cp = [s for s in walk_no_nested(init.node) if isinstance(s, ast.Assign) and norm(s.targets[0]) == 'self._eval_symbols']
    if not cp or not (isinstance(cp[0].value, ast.Call) and norm(cp[0].value.func) in ('copy.copy', 'dict', 'copy.deepcopy') and 'EvalContext._default_eval_symbols' in norm(cp[0].value)):
        run.violation('C12.R1', init, norm(cp[0]) if cp else 'self._eval_symbols', 'a context does not start from a private copy of the default symbols')
    else:
        run.ok('C12.R1', (init.file, cp[0].lineno, init.qualname), norm(cp[0]), 'private copy of the defaults; own symbols merged into the copy')
    ges = repo.func('EvalContext.get_eval_symbols')
    if [norm(s) for s in ges.node.body if not (isinstance(s, ast.Expr) and isinstance(s.value, ast.Constant))] != ['return self._eval_symbols']:
        ws = shared.shared_writes(repo, [ges])
        if not ws:
            run.info('C12.R1', ges, 'get_eval_symbols', 'no longer returns the private dict directly; no shared write found')
    else:
        run.ok('C12.R1', ges, 'get_eval_symbols returns the context\'s private dict')


def r1b(repo, run):
    fi = repo.func('EvalNode.ayns.on_evaluate_impl')
    g = cfg_of(fi)
    wname = 'EvalNode._globals_wrapper_name'
    installs = [n for n in g.stmt_nodes() if n.kind == 'stmt' and isinstance(n.ast, ast.Assign) and isinstance(n.ast.targets[0], ast.Subscript) and norm(n.ast.targets[0].slice) == wname
                and isinstance(n.ast.value, ast.Call) and norm(n.ast.value.func) == 'GlobalsWrapper']
    removes = [n for n in g.stmt_nodes() if n.kind == 'stmt' and isinstance(n.ast, ast.Delete) and isinstance(n.ast.targets[0], ast.Subscript) and norm(n.ast.targets[0].slice) == wname]
    removes += [n for n in g.stmt_nodes() if any(isinstance(c.func, ast.Attribute) and c.func.attr == 'pop' and c.args and norm(c.args[0]) == wname for c in n.calls())]
    runs = g.find_calls(lambda c: isinstance(c.func, ast.Name) and c.func.id in ('exec', 'eval'))
    caches = [n for n in g.stmt_nodes() if n.kind == 'stmt' and isinstance(n.ast, ast.Assign) and norm(n.ast.targets[0]).startswith('sys.modules[')]
    if not installs or not runs:
        raise AnalysisError('EvalNode.on_evaluate_impl: wrapper installation / exec not recognised')
    inst_ids = {n.id for n in installs}
    IN = cfgmod.forward_must(g, lambda n, f: f | {'w'} if n.id in inst_ids else f)
    for n, c in runs:
        if IN[n.id] is not None and 'w' in IN[n.id]:
            run.ok('C12.R1b', (fi.file, c.lineno, fi.qualname), unparse(c)[:60], 'a fresh GlobalsWrapper for this build is installed on every path before the code runs')
        else:
            run.violation('C12.R1b', fi, unparse(c), 'user code runs on a path on which this build\'s GlobalsWrapper was not installed (a cached namespace would resolve names through an earlier build\'s context)', node=c)
    wctx = [norm(a) for a in installs[0].ast.value.args]
    if 'ctx' not in wctx or 'ctx.ecfg' not in wctx:
        run.violation('C12.R1b', fi, norm(installs[0].ast), 'the wrapper is not built from the current context (ctx, ctx.ecfg)')
    rem_ids = {n.id for n in removes}
    IN2 = cfgmod.forward_must(g, lambda n, f: f | {'r'} if n.id in rem_ids else f)
    for n in caches:
        if IN2[n.id] is not None and 'r' in IN2[n.id]:
            run.ok('C12.R1b', (fi.file, n.ast.lineno, fi.qualname), norm(n.ast), 'wrapper removed from the namespace before it is cached')
        else:
            run.violation('C12.R1b', fi, norm(n.ast) + ' [wrapper still inside]', 'the namespace is cached in sys.modules while it still contains the GlobalsWrapper of this build (context, config and node are kept alive and reused)', node=n.ast)


def r2(repo, run):
    fi = repo.func('GlobalsWrapper.__getattr__')
    name = fi.params()[1]
    order = []
    def visit(stmts):
        for s in stmts:
            if isinstance(s, ast.If):
                t = s.test
                if isinstance(t, ast.Compare) and isinstance(t.ops[0], ast.In) and norm(t.left) == name:
                    rets = [r for r in ast.walk(ast.Module(body=s.body, type_ignores=[])) if isinstance(r, ast.Return)]
                    order.append((norm(t.comparators[0]), norm(rets[0].value) if rets else None, s))
                else:
                    raise AnalysisError('GlobalsWrapper.__getattr__: test %s not recognised' % norm(t))
                visit(s.orelse)
            elif isinstance(s, ast.Raise):
                order.append(('raise', norm(s.exc), s))
            elif isinstance(s, ast.Expr) and isinstance(s.value, ast.Constant):
                continue
            else:
                raise AnalysisError('GlobalsWrapper.__getattr__: statement %s outside the decision-list shape' % norm(s)[:60])
    visit(fi.node.body)
    want = [('self.gbls', 'self.gbls[%s]' % name), ('self.ecfg._cfgobj', 'self.ecfg[%s]' % name), ('__builtins__', '__builtins__[%s]' % name)]
    got = [(a, b) for a, b, _ in order if a != 'raise']
    if got != want:
        run.violation('C12.R2', fi, ' > '.join(a for a, _ in got), 'names are resolved in the order %s with results %s; required: own globals (definitions, symbols), then config, then builtins' % ([a for a, _ in got], [b for _, b in got]))
    elif not order or order[-1][0] != 'raise' or 'NameError' not in order[-1][1]:
        run.violation('C12.R2', fi, 'fall-through', 'an unknown name does not raise NameError')
    else:
        run.ok('C12.R2', fi, 'gbls > config > builtins > NameError')
    ev = repo.func('EvalNode.ayns.on_evaluate_impl')
    g = cfg_of(ev)
    upd = g.find_calls(lambda c: is_method_call(c, recv='gbls', member='update') and c.args and 'get_eval_symbols()' in norm(c.args[0]))
    if not upd:
        run.violation('C12.R2', ev, 'gbls.update(ctx.get_eval_symbols())', 'symbols supplied to the evaluation context are not merged into the globals of the code')
    else:
        run.ok('C12.R2', (ev.file, upd[0][1].lineno, ev.qualname), unparse(upd[0][1]), 'symbols visible as globals (before config entries)')
    gw = [c for c in calls_in(ev.node) if norm(c.func) == 'GlobalsWrapper']
    if not gw or norm(gw[0].args[0]) != 'gbls':
        run.violation('C12.R2', ev, unparse(gw[0]) if gw else 'GlobalsWrapper(...)', 'the wrapper does not consult the dict the code runs in')


def r3(repo, run):
    fi = repo.func('EvalNode.ayns.on_evaluate_impl')
    sinks = [c for c in calls_in(fi.node) if isinstance(c.func, ast.Name) and c.func.id in ('compile', 'exec', 'eval')]
    if len(sinks) < 3:
        raise AnalysisError('EvalNode: compile/exec/eval calls not found')
    tries = [s for s in walk_no_nested(fi.node) if isinstance(s, ast.Try)]
    for c in sinks:
        tr = [t for t in tries if any(x is c for b in t.body for x in ast.walk(b))]
        ok = False
        if tr:
            for h in tr[0].handlers:
                if h.type is not None and norm(h.type) in ('Exception', 'BaseException') and h.name:
                    rz = [r for r in h.body if isinstance(r, ast.Raise)]
                    if rz and rz[-1].exc is not None and 'EvalError' in norm(rz[-1].exc) and rz[-1].cause is not None and norm(rz[-1].cause) == h.name:
                        ok = True
        if ok:
            run.ok('C12.R3', (fi.file, c.lineno, fi.qualname), unparse(c)[:70], 'except Exception as e: raise EvalError(...) from e')
        else:
            run.violation('C12.R3', fi, unparse(c)[:100], 'an exception raised by user code here is not converted into EvalError carrying the original exception as cause', node=c)


def _maybe_none(fi, e, depth=3):
    """can the expression be None given how its names are defined? (self._source_file is Optional by construction)"""
    s = norm(e)
    if s in ('self._source_file', 'self.ayns.source_file'):
        return True
    if isinstance(e, ast.Name) and depth:
        ds = name_defs(fi, e.id)
        if not ds:
            return False
        return any(_maybe_none(fi, d[1], depth - 1) for d in ds)
    if isinstance(e, ast.IfExp):
        t = norm(e.test)
        if t.endswith('is not None') and norm(e.body) == t[:-len(' is not None')]:
            return _maybe_none(fi, e.orelse, depth)
        if t.endswith('is None') and norm(e.orelse) == t[:-len(' is None')]:
            return _maybe_none(fi, e.body, depth)
        return _maybe_none(fi, e.body, depth) or _maybe_none(fi, e.orelse, depth)
    if isinstance(e, ast.BoolOp) and isinstance(e.op, ast.Or):
        return _maybe_none(fi, e.values[-1], depth)
    if isinstance(e, ast.Constant):
        return e.value is None
    return False


def r4(repo, run):
    fi = repo.func('EvalNode.ayns.on_evaluate_impl')
    n = 0
    for c in calls_in(fi.node):
        if isinstance(c.func, ast.Name) and c.func.id == 'compile' and len(c.args) >= 2:
            n += 1
            g = cfg_of(fi)
            node = find_stmt_node(g, c)
            guarded = node is not None and ('%s is None' % norm(c.args[1]), False) in facts_at(g, node)
            if _maybe_none(fi, c.args[1]) and not guarded:
                run.violation('C12.R4', fi, unparse(c), 'compile() is given %s as file name, which is None for nodes parsed from a string without a file name: every !eval / f-string in an inline source fails with TypeError' % norm(c.args[1]), node=c)
            else:
                run.ok('C12.R4', (fi.file, c.lineno, fi.qualname), unparse(c), 'file name cannot be None')
    if n < 2:
        raise AnalysisError('EvalNode: compile calls not found')
    init = repo.func('ConfigNode.__init__')
    sf = [s for s in walk_no_nested(init.node) if isinstance(s, ast.Assign) and norm(s.targets[0]) == 'self._source_file']
    if not sf or 'None' not in norm(sf[0].value):
        run.info('C12.R4', init, norm(sf[0]) if sf else '_source_file', 'source file no longer optional by construction')


def shifted_ops_of_interpreter():
    path = _dis.__file__
    tree = ast.parse(open(path).read())
    out = {}
    for s in ast.walk(tree):
        if isinstance(s, ast.If):
            for arm in [s]:
                t = arm.test
                if isinstance(t, ast.Compare) and isinstance(t.ops[0], ast.Eq) and norm(t.left) in ('deop', 'op') and isinstance(t.comparators[0], ast.Name):
                    opn = t.comparators[0].id
                    body = norm(ast.Module(body=arm.body, type_ignores=[]))
                    if 'get_name' in body or '_get_name_info' in body:
                        if 'arg // 2' in body or 'arg >> 1' in body or 'arg//2' in body:
                            out[opn] = 1
                        elif 'arg // 4' in body or 'arg >> 2' in body:
                            out[opn] = 2
    return out, path


def _is_shifted_here(e):
    """does the operand expression shift the name index on the interpreter running this check?"""
    import sys
    if isinstance(e, ast.IfExp) and isinstance(e.test, ast.Call) and norm(e.test.func) == 'python_is_at_least' and all(isinstance(a, ast.Constant) for a in e.test.args):
        ver = tuple(a.value for a in e.test.args)
        return _is_shifted_here(e.body if tuple(sys.version_info[:2]) >= ver else e.orelse)
    return any(isinstance(x, ast.BinOp) and (isinstance(x.op, ast.LShift) or (isinstance(x.op, ast.Mult) and norm(x.right) == '2')) for x in ast.walk(e))


def r5(repo, run):
    shifted, path = shifted_ops_of_interpreter()
    if 'LOAD_GLOBAL' not in shifted and tuple(__import__('sys').version_info[:2]) >= (3, 11):
        raise AnalysisError('dis.py of this interpreter: shifted-operand branches not recognised (%s)' % path)
    fi = repo.func('EvalNode._patch_access_to_globals')
    run.table('C12.R5', len(shifted), 'opcodes with shifted name operand per %s: %s' % (os.path.basename(path), shifted))
    # decoded opcodes
    decoded = set()
    for s in ast.walk(fi.node):
        if isinstance(s, ast.Compare) and norm(s.left) == 'dis.opname[op]' and isinstance(s.ops[0], ast.In) and isinstance(s.comparators[0], (ast.List, ast.Tuple, ast.Set)):
            decoded |= {e.value for e in s.comparators[0].elts if isinstance(e, ast.Constant)}
    if not decoded:
        raise AnalysisError('_patch_access_to_globals: decoded opcode list not recognised')
    sh = [s for s in walk_no_nested(fi.node) if isinstance(s, ast.Assign) and norm(s.targets[0]) == 'arg_shifted']
    shifted_decoded = set()
    if sh:
        for cmp_ in ast.walk(sh[0].value):
            if isinstance(cmp_, ast.Compare) and norm(cmp_.left) == 'dis.opname[op]':
                c0 = cmp_.comparators[0]
                if isinstance(cmp_.ops[0], ast.Eq) and isinstance(c0, ast.Constant):
                    shifted_decoded.add(c0.value)
                if isinstance(cmp_.ops[0], ast.In) and isinstance(c0, (ast.List, ast.Tuple, ast.Set)):
                    shifted_decoded |= {e.value for e in c0.elts if isinstance(e, ast.Constant)}
    for op in sorted(decoded):
        need = op in shifted
        has = op in shifted_decoded
        if need and not has:
            run.violation('C12.R5', fi, 'decoding of %s' % op, 'on this interpreter the name operand of %s is stored shifted (dis.py: arg >> %d) but the patcher reads it unshifted' % (op, shifted[op]))
        else:
            run.ok('C12.R5', fi, 'decoding of %s' % op, 'shifted' if need else 'plain operand on this interpreter')
    # emitted opcodes
    n = 0
    for b in ast.walk(fi.node):
        if isinstance(b, ast.BinOp) and isinstance(b.op, ast.Add) and isinstance(b.left, ast.Call) and norm(b.left.func).startswith("dis.opmap[") and norm(b.left.func).endswith('.to_bytes'):
            opn = b.left.func.value.slice.value if isinstance(b.left.func.value.slice, ast.Constant) else None
            operand = b.right.func.value if isinstance(b.right, ast.Call) and isinstance(b.right.func, ast.Attribute) else None
            n += 1
            if opn in shifted:
                txt = norm(operand) if operand is not None else ''
                shifted_expr = '<<' in txt or '* 2' in txt or '*2' in txt
                if operand is not None and isinstance(operand, ast.Name):
                    ds = name_defs(fi, operand.id)
                    if len(ds) == 1:
                        shifted_expr = _is_shifted_here(ds[0][1])
                        txt = '%s = %s' % (operand.id, norm(ds[0][1]))
                if not shifted_expr:
                    run.violation('C12.R5', fi, 'emission of %s with operand %s' % (opn, txt), 'on this interpreter (%s) the name operand of %s must be shifted left by %d; the patcher emits the raw name index, so only name index 0 resolves correctly (`a + b` with two config names crashes the interpreter)' % (os.path.basename(path), opn, shifted[opn]), node=b)
                else:
                    run.ok('C12.R5', (fi.file, b.lineno, fi.qualname), 'emission of %s with operand %s' % (opn, txt), 'shifted')
            else:
                run.ok('C12.R5', (fi.file, b.lineno, fi.qualname), 'emission of %s' % opn, 'plain operand on this interpreter')
    if n < 1:
        raise AnalysisError('_patch_access_to_globals: emitted LOAD_ATTR not recognised')


def r6(repo, run):
    fi = repo.func('EvalNode._patch_access_to_globals')
    rec = [s for s in walk_no_nested(fi.node) if isinstance(s, ast.Assign) and norm(s.targets[0]) == 'new_consts']
    if not rec or 'code.co_consts' not in norm(rec[0].value) or 'maybe_patch' not in norm(rec[0].value):
        raise AnalysisError('_patch_access_to_globals: recursion over co_consts not recognised')
    early = [s for s in walk_no_nested(fi.node) if isinstance(s, ast.Return) and s.lineno < rec[0].lineno]
    mp = fi.nested().get('maybe_patch')
    rec_call = mp is not None and any(norm(c.func) == 'EvalNode._patch_access_to_globals' for c in calls_in(mp.node))
    if early:
        run.violation('C12.R6', fi, norm(early[0]), 'the patcher returns before it has recursed into nested code objects: names used inside nested functions / lambdas / comprehensions of such a code object are not redirected to the config', node=early[0])
    elif not rec_call:
        run.violation('C12.R6', fi, 'maybe_patch', 'nested code objects are not patched recursively')
    else:
        run.ok('C12.R6', (fi.file, rec[0].lineno, fi.qualname), norm(rec[0]), 'every nested code object is patched first; no earlier return')
    # the "nothing to do" return must consider nested changes
    nd = [s for s in walk_no_nested(fi.node) if isinstance(s, ast.If) and norm(s.test) == 'not done_something']
    if not nd or rec[0].lineno > nd[0].lineno:
        run.violation('C12.R6', fi, 'if not done_something', 'the unchanged-code shortcut does not account for patched nested code objects')


def r7r8(repo, run):
    fi = repo.func('EvalNode._patch_access_to_globals')
    inserts = any(isinstance(c.func, ast.Attribute) and c.func.attr == 'append' and norm(c.func.value) == 'new_bytecode' for c in calls_in(fi.node))
    n = 0
    for c in calls_in(fi.node):
        if norm(c.func) == 'types.CodeType':
            for a in c.args:
                if norm(a) == 'code.co_exceptiontable':
                    n += 1
                    if inserts:
                        run.violation('C12.R7', fi, 'types.CodeType(..., code.co_exceptiontable, ...)', 'the exception table (byte offsets of try/with ranges and handlers) of the original code is attached unchanged to bytecode into which instructions were inserted: a try/with block after a redirected name load no longer covers its body (an exception raised there is not caught)', node=c)
                    else:
                        run.ok('C12.R7', (fi.file, c.lineno, fi.qualname), 'exception table kept (no instruction inserted)')
    if n == 0:
        tables = [c for c in calls_in(fi.node) if norm(c.func) == 'types.CodeType']
        if not tables:
            raise AnalysisError('_patch_access_to_globals: types.CodeType(...) not found')
        run.ok('C12.R7', fi, 'exception table is not passed verbatim', 'recomputed or not applicable')
    src = norm(fi.node)
    single_read = [x for x in ast.walk(fi.node) if isinstance(x, ast.Subscript) and norm(x) in ('code.co_code[i + 1]', 'code.co_code[i+1]')]
    single_write = [c for c in calls_in(fi.node) if isinstance(c.func, ast.Attribute) and c.func.attr == 'to_bytes' and c.args and norm(c.args[0]) == '1' and norm(c.func.value) in ('new_arg', 'attr_arg', 'arg', 'new_loc_rel', 'new_loc_abs')]
    handles_ext = 'EXTENDED_ARG' in src
    if (single_read or single_write) and not handles_ext:
        run.violation('C12.R8', fi, 'single-byte operands (%d reads, %d writes) without EXTENDED_ARG' % (len(single_read), len(single_write)),
                      'operands are read from / written to one byte and EXTENDED_ARG prefixes are ignored: code whose (shifted) name index or jump distance needs more than 8 bits cannot be translated (OverflowError / wrong name)', node=(single_read or single_write)[0])
    else:
        run.ok('C12.R8', fi, 'operand width', 'EXTENDED_ARG handled or no single-byte access')


def check(repo, run, tier):
    r7r8(repo, run)
    r1(repo, run)
    r1b(repo, run)
    r2(repo, run)
    r3(repo, run)
    r4(repo, run)
    r5(repo, run)
    r6(repo, run)


def mutants(repo):
    return [
        Mutant('symbols-leak-into-defaults', lambda r: in_func(r, 'EvalContext.get_eval_symbols', "        return self._eval_symbols", "        merged = EvalContext.get_default_eval_symbols()\n        merged.update(self._eval_symbols)\n        return merged"), ['C12.R1']),
        Mutant('context-shares-default-symbols', lambda r: in_func(r, 'EvalContext.__init__', "self._eval_symbols = copy.copy(EvalContext._default_eval_symbols)", "self._eval_symbols = EvalContext._default_eval_symbols"), ['C12.R1']),
        Mutant('wrapper-persisted-in-cached-namespace', lambda r: in_func(r, 'EvalNode.ayns.on_evaluate_impl', "        del gbls[EvalNode._globals_wrapper_name]\n", ""), ['C12.R1b']),
        Mutant('wrapper-only-for-fresh-namespace', lambda r: in_func(r, 'EvalNode.ayns.on_evaluate_impl', "        gbls[EvalNode._globals_wrapper_name] = GlobalsWrapper(gbls, ctx.ecfg, ctx, self, path)\n", "        if not from_module:\n            gbls[EvalNode._globals_wrapper_name] = GlobalsWrapper(gbls, ctx.ecfg, ctx, self, path)\n"), ['C12.R1b']),
        Mutant('config-before-own-globals', lambda r: in_func(r, 'GlobalsWrapper.__getattr__',
               "        if name in self.gbls:\n            return self.gbls[name]\n\n        if name in self.ecfg._cfgobj:\n            with self.ctx.require_all_safe(self.node, self.path):\n                return self.ecfg[name]\n        elif",
               "        if name in self.ecfg._cfgobj:\n            with self.ctx.require_all_safe(self.node, self.path):\n                return self.ecfg[name]\n        elif name in self.gbls:\n            return self.gbls[name]\n        elif"), ['C12.R2']),
        Mutant('symbols-not-merged', lambda r: in_func(r, 'EvalNode.ayns.on_evaluate_impl', "            gbls.update(ctx.get_eval_symbols())\n", ""), ['C12.R2']),
        Mutant('user-exception-loses-cause', lambda r: in_func(r, 'EvalNode.ayns.on_evaluate_impl',
               "            raise EvalError('The above exception occurred in the user code.', self, path, note=code) from e\n\n        del", "            raise EvalError('The above exception occurred in the user code.', self, path, note=code)\n\n        del"), ['C12.R3']),
        Mutant('F11-reverted-none-filename', lambda r: in_func(r, 'EvalNode.ayns.on_evaluate_impl', "exec_code = compile(exec_lines, filename, 'exec')", "exec_code = compile(exec_lines, self._source_file, 'exec')"), ['C12.R4']),
        Mutant('load-global-decoded-unshifted', lambda r: in_func(r, 'EvalNode._patch_access_to_globals', "arg_shifted = (python_is_at_least(3, 11) and dis.opname[op] == 'LOAD_GLOBAL')", "arg_shifted = False"), ['C12.R5']),
        Mutant('F17-reverted-load-attr-unshifted', lambda r: in_func(r, 'EvalNode._patch_access_to_globals', "attr_arg = (arg << 1) if python_is_at_least(3, 12) else arg", "attr_arg = arg"), ['C12.R5']),
        Mutant('patcher-fast-path-before-recursion', lambda r: in_func(r, 'EvalNode._patch_access_to_globals', "        done_something = False\n", "        done_something = False\n        if not code.co_names:\n            return code, False\n"), ['C12.R6']),
        Mutant('neutral-rename-lines-var', lambda r: in_func(r, 'EvalNode.ayns.on_evaluate_impl', "eval_line", "last_line", None), neutral=True),
    ]
