"""C12 - !eval and f-strings compute what Python computes, with config names visible (structural clauses only)."""
import ast
import dis as _dis
import os

from .. import cfg as cfgmod
from .. import shared
from ..mutate import Mutant, in_func, delete_stmt, in_module
from ..report import AnalysisError
from ..srcmodel import unparse, norm, walk_no_nested, calls_in
from .common import cfg_of, is_method_call, get_kw, facts_at, find_stmt_node, name_defs, derives_from, only_reached_from, parent_chain, fde_guard
from . import tr
from . import unitrules
from ..tracer import Tracer

from .common import Guard  # noqa: E402

PROP = 'C12'
DECIDED = [
    'R1: per-build objects do not escape into process-global state: every write to interpreter / class / module-level state made by evaluation code (eval.py, fstr.py, eval_context.py) is reported unless it is the documented configuration API; R1b: the globals wrapper (which captures the build\'s context) is installed on every path before the code runs and removed before the namespace can be cached; symbols are copied per context.',
    'R2: GlobalsWrapper.__getattr__ is a decision list over, in this order, the code\'s own globals (definitions + symbols), the config, the builtins, then NameError; symbols are merged into the globals before the code runs.',
    'R3: compile/exec/eval of user code sit in a try whose catch-all handler raises EvalError(...) from the caught exception.',
    'R4: the file name handed to compile() cannot be None (the node\'s source file is optional by construction).',
    'R5: operand encoding follows the interpreter in use: every opcode whose name operand is shifted according to this interpreter\'s dis.py and that the bytecode patcher decodes or emits is shifted by the patcher too.',
    'R7: offset-bearing code attributes (co_exceptiontable) are not passed verbatim to the rebuilt code object when instructions were inserted; R8: operands are not read / written as single bytes without EXTENDED_ARG handling (both currently violated: known findings).',
    'R6: the patcher recurses into nested code objects (co_consts) before any early return that depends on the outer code object\'s names.',
    'R9: Config.build / Config.__init__ evaluated: the evaluation context the caller passes (with its symbols) is the one that evaluates - a fresh EvalContext only when none is given; sources and options reach the builder unchanged.',
    "R10: the !eval pipeline on traces: leading lines compiled in exec mode and executed, last line compiled in eval mode and evaluated, both patched and in one namespace, exec first; eval's value is the result; a published module carries the namespace.",
]
UNDECIDED = ['correctness of the bytecode translation for all programs and CPython versions (jump fix-ups, exception tables, EXTENDED_ARG);', 'f-string normalisation; numerical results.']
TRUSTED = ['dis.py of the interpreter that runs the check (same /venv interpreter the repo runs on)']
EVAL_FILES = ('awesomeyaml/nodes/eval.py', 'awesomeyaml/nodes/fstr.py', 'awesomeyaml/eval_context.py')
R1_EXEMPT = {('EvalContext.set_default_eval_symbols', 'EvalContext._default_eval_symbols'): 'explicit process-wide configuration API'}


def r1(repo, run):
    fns = [f for f in repo.all_functions() if f.file in EVAL_FILES]
    n = 0
    for w in shared.shared_writes(repo, fns):
        top = w.fi
        while top.outer is not None:
            top = top.outer
        n += 1
        where = (w.fi.file, w.node.lineno, w.fi.qualname)
        if (top.qualname, w.root[1]) in R1_EXEMPT:
            run.ok('C12.R1', where, w.text(), 'exempt: ' + R1_EXEMPT[(top.qualname, w.root[1])])
        elif w.kind.startswith('maybe-'):
            run.info('C12.R1', where, w.text(), 'write through a name that may alias %s (the cached namespace); part of the persistent-namespace finding' % w.root[1])
        else:
            # the finding is attributed to the public function the write belongs to (a private helper reached only from it
            # is part of it) and named after the shared root, not after local variable names
            owner = top.qualname
            for cand in ('EvalNode.ayns.on_evaluate_impl', 'FStrNode.ayns.on_evaluate_impl'):
                if owner != cand and only_reached_from(repo, owner, {cand}):
                    owner = cand
            run.violation('C12.R1', (w.fi.file, w.node.lineno, owner), '%s %s[...] (%s)' % (w.kind, w.root[1], w.root[0]), 'evaluation code stores per-build state in process-global state (%s %s): a later build in the same process sees objects (context, config, symbols) of an earlier one [%s]' % (w.root[0], w.root[1], w.text()[:80]))
    if n < 2:
        raise AnalysisError('C12.R1: shared-write inventory of the evaluation modules found %d writes' % n)
    # symbols are copied per context
    init = repo.func('EvalContext.__init__')
    cp = [s for s in walk_no_nested(init.node) if isinstance(s, ast.Assign) and norm(s.targets[0]) == 'self._eval_symbols']
    if not cp or not (isinstance(cp[0].value, ast.Call) and norm(cp[0].value.func) in ('copy.copy', 'dict', 'copy.deepcopy') and 'EvalContext._default_eval_symbols' in norm(cp[0].value)):
        run.violation('C12.R1', init, norm(cp[0]) if cp else 'self._eval_symbols', 'a context does not start from a private copy of the default symbols')
    else:
        run.ok('C12.R1', (init.file, cp[0].lineno, init.qualname), norm(cp[0]), 'private copy of the defaults; own symbols merged into the copy')
    ges = repo.func('EvalContext.get_eval_symbols')
    if [norm(s) for s in ges.node.body if not (isinstance(s, ast.Expr) and isinstance(s.value, ast.Constant))] != ['return self._eval_symbols']:
        ws = shared.shared_writes(repo, [ges])
        if not ws:
            run.info('C12.R1', ges, 'get_eval_symbols', 'no longer returns the private dict directly; no shared write found')
    else:
        run.ok('C12.R1', ges, 'get_eval_symbols returns the context\'s private dict')


ENI = {'_require_safe', '_patch_access_to_globals', 'evaluate_node', 'get_eval_symbols'}
WNAME = 'EvalNode._globals_wrapper_name'


def exotic_eval_shape(fi):
    """constructs in EvalNode.on_evaluate_impl that the trace rules cannot read reliably (the rules then give no verdict instead of
    guessing): star-unpacking assignments, the two code objects produced through map(...), the namespace handed out by a helper as
    part of a tuple, vars(module) instead of module.__dict__"""
    for n in ast.walk(fi.node):
        if isinstance(n, ast.Assign) and any(isinstance(x, ast.Starred) for t in n.targets for x in ast.walk(t)):
            return 'star-unpacking assignment `%s`' % norm(n)[:60]
        if isinstance(n, ast.Call) and isinstance(n.func, ast.Name) and n.func.id in ('map', 'vars', 'starmap'):
            return '%s(...) call `%s`' % (n.func.id, norm(n)[:60])
        if isinstance(n, ast.Assign) and isinstance(n.targets[0], ast.Tuple) and isinstance(n.value, ast.Call) and isinstance(n.value.func, ast.Name) \
                and n.value.func.id in fi.module.functions and any(isinstance(x, ast.Name) and x.id in ('gbls', 'namespace', 'globals_') for x in n.targets[0].elts):
            return 'namespace handed out by a helper `%s`' % norm(n)[:60]
    return None


class GuardedRun:
    """a Run whose violations become "no verdict" when the analysed function uses constructs the trace rules cannot read reliably:
    what the rules recognise is still reported as ok, but a deviation is only reported for a shape they can read"""

    def __init__(self, run, fi):
        self._run, self._why = run, exotic_eval_shape(fi)

    def __getattr__(self, name):
        return getattr(self._run, name)

    def violation(self, *a, **k):
        if self._why:
            raise AnalysisError('EvalNode.on_evaluate_impl: %s - shape not recognised by the trace rules' % self._why)
        return self._run.violation(*a, **k)


def _eval_paths(repo, exc=False):
    fi = repo.func('EvalNode.ayns.on_evaluate_impl')
    return fi, tr.paths_of(repo, fi, no_inline=ENI, follow_exceptions=exc)


def r1b(repo, run):
    fi, paths = _eval_paths(repo)
    run = GuardedRun(run, fi)
    n_run = n_cache = 0
    verdicts = set()
    for p in paths:
        for i, e in enumerate(p.events):
            if e.kind == 'call' and e.callee in ('exec', 'eval') and len(e.args) >= 2:
                n_run += 1
                G = e.args[1].text
                inst = [x for x in p.events[:i] if x.kind == 'store' and x.target == '%s[%s]' % (G, WNAME) and x.value is not None and x.value.text.startswith('GlobalsWrapper(')]
                removed = [x for x in p.events[:i] if (x.kind == 'store' and x.target == 'del %s[%s]' % (G, WNAME)) or (tr.is_call(x, attr='pop', recv=G) and x.args and x.args[0].text == WNAME)]
                if not inst or (removed and tr.index_of(p, removed[-1]) > tr.index_of(p, inst[-1])):
                    verdicts.add(('bad', 'R1b', 'user code runs on a path on which this build\'s GlobalsWrapper was not installed (a cached namespace would resolve names through an earlier build\'s context) [%s]' % tr.describe(p, 3)))
                    continue
                w = [x for x in p.events[:i] if x.kind == 'call' and x.callee == 'GlobalsWrapper' and x.result is not None and x.result.text == inst[-1].value.text]
                wargs = [a.text for a in w[-1].args] if w else []
                if not wargs or wargs[0] != G:
                    verdicts.add(('bad', 'R2', 'the wrapper does not consult the dict the code runs in'))
                elif 'ctx' not in wargs or 'ctx.ecfg' not in wargs:
                    verdicts.add(('bad', 'R1b', 'the wrapper is not built from the current context (ctx, ctx.ecfg)'))
                else:
                    verdicts.add(('ok', 'R1b', 'a fresh GlobalsWrapper(<namespace>, ctx.ecfg, ctx, ...) for this build is installed on every path before the code runs'))
                fresh = not G.startswith('sys.modules[')
                if fresh:
                    merged = any(tr.is_call(x, attr='update', recv=G) and x.args and x.args[0].text == 'ctx.get_eval_symbols()' for x in p.events[:i]) or '**ctx.get_eval_symbols()' in G
                    if merged:
                        verdicts.add(('ok', 'R2', 'symbols of the context are merged into a fresh namespace before the code runs'))
                    else:
                        verdicts.add(('bad', 'R2', 'symbols supplied to the evaluation context are not merged into the globals of the code'))
            cached = e.kind == 'store' and e.target.startswith('sys.modules[') and not e.target.startswith('sys.modules[') is False and '.__dict__[' not in e.target and not e.target.startswith('del ')
            if cached:
                n_cache += 1
                runs = [x for x in p.events[:i] if x.kind == 'call' and x.callee in ('exec', 'eval') and len(x.args) >= 2]
                G = runs[-1].args[1].text if runs else None
                removed = G is not None and any((x.kind == 'store' and x.target == 'del %s[%s]' % (G, WNAME)) or (tr.is_call(x, attr='pop', recv=G) and x.args and x.args[0].text == WNAME) for x in p.events[:i])
                persistent = any(pol and t.endswith('.persistent_namespace') for t, pol in e.facts)
                multi = any(pol and t.startswith('len(') and t.rstrip().endswith('> 1') for t, pol in e.facts)
                reused = G is not None and G.startswith('sys.modules[')
                if not persistent or not multi or reused:
                    verdicts.add(('bad', 'R1b', 'the namespace is published in sys.modules on a path where %s: only a multi-line node with persistent_namespace publishes, and only a namespace it built itself' % (
                        'the node is not known to be persistent' if not persistent else ('the code is not known to have more than one line' if not multi else 'it was taken from sys.modules in the first place'))))
                if removed:
                    verdicts.add(('ok', 'R1b', 'wrapper removed from the namespace before it is cached'))
                else:
                    verdicts.add(('bad', 'R1b', 'the namespace is cached in sys.modules while it still contains the GlobalsWrapper of this build (context, config and node are kept alive and reused)'))
    if not n_run:
        raise AnalysisError('EvalNode.on_evaluate_impl: wrapper installation / exec not recognised')
    for v in sorted(verdicts):
        (run.ok if v[0] == 'ok' else run.violation)('C12.' + v[1], fi, 'namespace of the evaluated code', v[2])


def r1c(repo, run):
    """contradiction rule over the evaluation code of !eval nodes: no path looks a key up in a mapping (d[k]) after it has itself
    established that the key is absent (`k in d` false / `k not in d` true) without storing it in between - such a lookup can only
    raise KeyError (the persistent-namespace lookup in sys.modules is the instance this guards)"""
    fns = [repo.func('EvalNode.ayns.on_evaluate_impl')]
    n = 0
    for fi in fns:
        for p in tr.paths_of(repo, fi, follow_exceptions=False, no_inline={'_patch_access_to_globals', '_require_safe', 'get_eval_symbols', 'evaluate_node'}):
            absent = set()
            for t, pol in p.facts:
                for neg, sep in ((False, ' in '), (True, ' not in ')):
                    if sep in t and pol == neg and not (sep == ' in ' and ' not in ' in t):
                        k_, d_ = t.rsplit(sep, 1)
                        absent.add((k_.strip(), d_.strip()))
            if not absent:
                continue
            for e in p.events:
                if e.kind == 'subscr' and e.value is not None and (e.value.text, e.callee) in absent:
                    # (facts precede the events they guard; a store into d[k] in between would be a 'store' event with this target)
                    stored = any(x.kind == 'store' and x.target == '%s[%s]' % (e.callee, e.value.text) for x in p.events[:p.events.index(e)])
                    if not stored:
                        run.violation('C12.R1', tr.where(fi, e), norm(e.node)[:80], 'on the path [%s] the key is looked up in %s although the path has just established that it is not there: the lookup raises KeyError (every evaluation of the node fails when no namespace module exists yet)' % (tr.describe(p, 3), e.callee), node=e.node)
                        return
            n += 1
    run.ok('C12.R1', fns[0], 'no lookup of a key the path knows to be absent (%d paths with membership tests)' % n)


def r2(repo, run):
    """name resolution of the evaluated code, decided by evaluating GlobalsWrapper.__getattr__ (finite-domain evaluator) for
    every combination of the name being defined by the node's own globals / the config / the builtins"""
    from ..fde import FDE, Obj, Unsupported
    import itertools
    fi = repo.func('GlobalsWrapper.__getattr__')
    bad = []
    rows = 0
    for in_g, in_c, in_b in itertools.product((False, True), repeat=3):
        ev = FDE(repo, stubs={'__getitem__', 'require_all_safe'}, stub=lambda name, recv, args, kwargs: ('config', args[0]) if name == '__getitem__' else None)
        ev.free['__builtins__'] = {'n': 'from-builtins'} if in_b else {}
        ecfg = Obj('ecfg', 'EvalContext.PartialChild', _cfgobj={'n': 'node'} if in_c else {})
        w = Obj('wrapper', 'GlobalsWrapper', gbls={'n': 'from-globals'} if in_g else {}, ecfg=ecfg, ctx=Obj('ctx', 'EvalContext'), node=Obj('node', 'EvalNode'), path=[])
        try:
            r = ev.call(fi, w, 'n')
        except Unsupported as e:
            raise AnalysisError('GlobalsWrapper.__getattr__: finite-domain evaluator refused: %s' % e)
        want = 'from-globals' if in_g else (('config', 'n') if in_c else ('from-builtins' if in_b else None))
        rows += 1
        kept = sorted(k for k in w.f if k not in ('gbls', 'ecfg', 'ctx', 'node', 'path'))
        if kept:
            # __getattr__ only runs when the attribute is not found on the instance: a resolved name stored there is never resolved again
            bad.append('the resolved name is stored on the wrapper itself (%s): later lookups of it bypass the resolution order - a definition the code makes afterwards in its own globals is ignored' % kept)
        where = 'defined by %s' % (', '.join(x for x, f in (('own globals', in_g), ('config', in_c), ('builtins', in_b)) if f) or 'nothing')
        if want is None:
            if r.raised != 'NameError':
                bad.append('a name %s gives %s (required: NameError)' % (where, r.raised or repr(r.ret)))
        elif r.raised is not None or r.ret != want:
            bad.append('a name %s resolves to %s (required: %s)' % (where, r.raised or repr(r.ret), want))
    # the same top-level name asked for again while its entry is being evaluated (the code of a node inside a container refers to that
    # container by name: `cfg: {p: 1, q: !eval cfg.p + 1}` reached through `z: !eval cfg.q`): the partially evaluated container is what
    # the inner lookup gets - the lookup itself never fails
    ctx = Obj('ctx', 'EvalContext')
    ecfg = Obj('ecfg', 'EvalContext.PartialChild', _cfgobj={'n': 'node'})
    inner = []

    def nested(name, recv, args, kwargs):
        if name != '__getitem__':
            return None
        if not inner:
            inner.append(None)
            w2 = Obj('inner wrapper', 'GlobalsWrapper', gbls={}, ecfg=ecfg, ctx=ctx, node=Obj('inner node', 'EvalNode'), path=['n', 'q'])
            r2 = ev.call(fi, w2, 'n')
            inner[0] = r2.raised or r2.ret
        return ('config', args[0])
    ev = FDE(repo, stubs={'__getitem__', 'require_all_safe'}, stub=nested)
    ev.free['__builtins__'] = {}
    w = Obj('wrapper', 'GlobalsWrapper', gbls={}, ecfg=ecfg, ctx=ctx, node=Obj('node', 'EvalNode'), path=['z'])
    try:
        r = ev.call(fi, w, 'n')
        rb = ev.call(fi, w, 'n')        # and once more afterwards
    except Unsupported as e:
        raise AnalysisError('GlobalsWrapper.__getattr__ (nested lookup of the same name): finite-domain evaluator refused: %s' % e)
    rows += 1
    if r.raised or inner != [('config', 'n')] or r.ret != ('config', 'n'):
        bad.append('a top-level name looked up again by a node inside the entry being evaluated gives %s / the outer lookup %s (required: the config entry both times - partially evaluated containers are handed out by design)' % (inner[0] if inner else 'nothing', r.raised or repr(r.ret)))
    elif rb.raised or rb.ret != ('config', 'n'):
        bad.append('the same name looked up again after its evaluation finished gives %s' % (rb.raised or repr(rb.ret)))
    if bad:
        run.violation('C12.R2', fi, 'name resolution order', '%s; required: own globals (definitions, symbols), then config, then builtins, else NameError' % '; '.join(bad[:3]))
    else:
        run.ok('C12.R2', fi, 'gbls > config > builtins > NameError (%d membership combinations evaluated)' % rows)


def r3(repo, run):
    fi, paths = _eval_paths(repo, exc=True)
    run = GuardedRun(run, fi)
    sinks = {}
    for p in paths:
        for e in p.events:
            if e.kind == 'call' and e.callee in ('compile', 'exec', 'eval'):
                sinks.setdefault(id(e.node), e)
    if len(sinks) < 3:
        raise AnalysisError('EvalNode: compile/exec/eval calls not found')
    covered = set()
    bad = None
    for p in paths:
        exc = [t for t, pol in p.facts if t.startswith('exception:') and pol]
        if not exc:
            continue
        for i, e in enumerate(p.events):
            if e.kind == 'exc':
                for x in p.events[:i]:
                    if x.kind == 'call' and id(x.node) in sinks:
                        covered.add(id(x.node))
        if any(('Exception' in t.split(':', 1)[1] and 'EvalError' not in t) or 'BaseException' in t for t in exc):
            fin = tr.final_event(p)
            if p.status == 'raise' and fin is not None and fin.value.text == '<reraise>' and \
                    any(pol and t in ('isinstance(caught_exception, EvalError)', 'isinstance(caught_exception, errors.EvalError)') for t, pol in p.facts):
                continue      # the caught exception is an EvalError already (catch-all handler that tests for it): re-raised as it is
            if p.status != 'raise' or fin is None or not fin.value.text.startswith(('EvalError(', 'errors.EvalError(')) or fin.target != 'caught_exception':
                bad = (fin, 'an exception raised by user code is not converted into EvalError carrying the original exception as cause (handler ends with %s%s)' % (p.status, (' ' + fin.value.text[:40] + (' from ' + str(fin.target) if fin.target else ' without cause')) if fin is not None and fin.value is not None else ''))
    for k, e in sinks.items():
        if k not in covered:
            run.violation('C12.R3', tr.where(fi, e), e.callee + '(...)', 'an exception raised by user code here is not inside the try block whose handler converts it into EvalError')
        elif bad is None:
            run.ok('C12.R3', tr.where(fi, e), e.callee + '(...)', 'except Exception as e: raise EvalError(...) from e')
    if bad is not None:
        run.violation('C12.R3', tr.where(fi, bad[0]), 'catch-all handler', bad[1])


def r4(repo, run):
    fi, paths = _eval_paths(repo)
    run = GuardedRun(run, fi)
    n = 0
    verdicts = {}
    for p in paths:
        for e in p.events:
            if e.kind == 'call' and e.callee == 'compile' and len(e.args) >= 2:
                n += 1
                f = e.args[1]
                if isinstance(f.ast, ast.Constant) and isinstance(f.const, str):
                    verdicts.setdefault((id(e.node), 'ok'), (e, 'constant placeholder file name'))
                elif f.text in ('self._source_file', 'self.ayns.source_file'):
                    if (f.text + ' is None', False) in e.facts:
                        verdicts.setdefault((id(e.node), 'ok'), (e, 'file name cannot be None on this path'))
                    else:
                        verdicts.setdefault((id(e.node), 'bad'), (e, 'compile() is given %s as file name, which is None for nodes parsed from a string without a file name: every !eval / f-string in an inline source fails with TypeError' % f.text))
                else:
                    verdicts.setdefault((id(e.node), 'ok'), (e, 'file name %s (not the optional source file)' % f.text[:40]))
    if n < 2:
        raise AnalysisError('EvalNode: compile calls not found')
    for (k, v), (e, why) in verdicts.items():
        (run.ok if v == 'ok' else run.violation)('C12.R4', tr.where(fi, e), 'compile(<code>, <file name>, ...)', why)


def shifted_ops_of_interpreter():
    path = _dis.__file__
    tree = ast.parse(open(path).read())
    out = {}
    for s in ast.walk(tree):
        if isinstance(s, ast.If):
            for arm in [s]:
                t = arm.test
                if isinstance(t, ast.Compare) and isinstance(t.ops[0], ast.Eq) and norm(t.left) in ('deop', 'op') and isinstance(t.comparators[0], ast.Name):
                    opn = t.comparators[0].id
                    body = norm(ast.Module(body=arm.body, type_ignores=[]))
                    if 'get_name' in body or '_get_name_info' in body:
                        if 'arg // 2' in body or 'arg >> 1' in body or 'arg//2' in body:
                            out[opn] = 1
                        elif 'arg // 4' in body or 'arg >> 2' in body:
                            out[opn] = 2
    return out, path


def _decode_loop(fi, repo=None):
    """the top-level statement of the patcher that holds the instruction loop over co_code - the loop itself, or the call of
    the private helper (reached only from the patcher) the loop has been moved to"""
    def over_code(fn, s):
        # the loop reads the code bytes: `<x>.co_code` itself or a local the function bound to it (`bytecode = code.co_code`)
        al = {t.id for st in ast.walk(fn) if isinstance(st, ast.Assign) and norm(st.value).endswith('.co_code') for t in st.targets if isinstance(t, ast.Name)}
        return 'co_code' in norm(s) or any(isinstance(n, ast.Name) and n.id in al for n in ast.walk(s))
    loops = [s for s in fi.node.body if isinstance(s, (ast.While, ast.For)) and over_code(fi.node, s)]
    if loops:
        return loops[0]
    if repo is not None:
        holders = [g for g in _family(repo, fi) if g is not fi and any(isinstance(s, (ast.While, ast.For)) and over_code(g.node, s) and 'dis.opname' in norm(s) for s in ast.walk(g.node))]
        for g in holders:
            for st in fi.node.body:
                if any((isinstance(c.func, ast.Name) and c.func.id == g.name) or (isinstance(c.func, ast.Attribute) and c.func.attr == g.name) for c in calls_in(st)):
                    return st
    raise AnalysisError('_patch_access_to_globals: instruction loop over co_code not found')


def _patcher_paths(repo, upto):
    fi = repo.func('EvalNode._patch_access_to_globals')
    return fi, Tracer(repo, follow_exceptions=False, max_paths=20000).trace(fi, upto=upto)


def _emissions(p):
    """(what, operand Val-ast, event): instruction words appended on this path: what = 'orig' (the original opcode byte
    re-emitted with a new operand) or the name of the opcode taken from dis.opmap"""
    out = []
    for e in p.events:
        if e.kind != 'call' or e.attr != 'append' or len(e.args) != 1:
            continue
        a = e.args[0].ast
        if not (isinstance(a, ast.BinOp) and isinstance(a.op, ast.Add) and isinstance(a.right, ast.Call) and isinstance(a.right.func, ast.Attribute) and a.right.func.attr == 'to_bytes'):
            continue
        operand = a.right.func.value
        left = a.left
        if isinstance(left, ast.Call) and isinstance(left.func, ast.Attribute) and left.func.attr == 'to_bytes' and isinstance(left.func.value, ast.Subscript) and norm(left.func.value.value) == 'dis.opmap' \
                and isinstance(left.func.value.slice, ast.Constant):
            out.append((left.func.value.slice.value, operand, e))
        elif isinstance(left, ast.Subscript) and norm(left.value).endswith('.co_code'):
            out.append(('orig', operand, e))
    return out


def r5(repo, run):
    """operand encoding evaluated: for every opcode name the patcher decodes and every small operand byte, the decode
    loop is interpreted path by path with the interpreter facts (python_is_at_least, dis.opname) fixed; the name index it reads and the
    operands it emits are computed and compared with the encoding dis.py of this interpreter documents"""
    import sys
    shifted, path = shifted_ops_of_interpreter()
    if 'LOAD_GLOBAL' not in shifted and tuple(sys.version_info[:2]) >= (3, 11):
        raise AnalysisError('dis.py of this interpreter: shifted-operand branches not recognised (%s)' % path)
    loop = _decode_loop(repo.func('EvalNode._patch_access_to_globals'), repo)
    fi, paths = _patcher_paths(repo, loop)
    run.table('C12.R5', len(shifted), 'opcodes with shifted name operand per %s: %s' % (os.path.basename(path), shifted))
    # the opcode / operand expressions of the first instruction
    optexts = set()
    for p in paths:
        for e in p.events:
            if e.kind == 'subscr' and e.callee == 'dis.opname':
                optexts.add(e.value.text)
    if len(optexts) != 1:
        raise AnalysisError('_patch_access_to_globals: opcode lookup dis.opname[<op>] not recognised (%s)' % sorted(optexts)[:3])
    OP = 'dis.opname[%s]' % optexts.pop()
    base = dict(tr.module_consts(fi.module))
    for v in ((3, 8), (3, 9), (3, 10), (3, 11), (3, 12), (3, 13), (3, 14)):
        base['python_is_at_least(%d, %d)' % v] = tuple(sys.version_info[:2]) >= v
    W = 5
    bad = []
    rows = 0
    decoded_ops = []
    for opname in ('LOAD_GLOBAL', 'LOAD_NAME', 'LOAD_FAST', 'STORE_NAME'):
        s_op = shifted.get(opname, 0)
        seen_redirect = False
        for b in (0, 1, 2, 3, 6, 7):
            sub = dict(base)
            sub[OP] = opname
            feas = [p for p in paths if tr.feasible(p, sub)[0]]
            if not feas:
                raise AnalysisError('_patch_access_to_globals: no feasible path for opcode %s' % opname)
            for p in feas:
                em = _emissions(p)
                redirect = [x for x in em if x[0] == 'LOAD_ATTR']
                if not redirect:
                    continue
                seen_redirect = True
                rows += 1
                # operand byte of this instruction: the co_code subscript that is not the opcode itself
                reads = [e for e in p.events if e.kind == 'subscr' and e.callee.endswith('.co_code') and e.result is not None and 'dis.opname[%s]' % e.result.text != OP and not isinstance(e.value.ast, ast.Slice)]
                if not reads:
                    raise AnalysisError('_patch_access_to_globals: operand read not recognised')
                val = dict(sub)
                val[reads[0].result.text] = b
                names = [e for e in p.events if e.kind == 'subscr' and e.callee.endswith('.co_names')]
                widx = [e for e in p.events if e.kind == 'call' and e.attr == 'index' and e.args and e.args[0].text == WNAME]
                for e in widx:
                    val[e.result.text] = W
                try:
                    idx = tr._ev_const(names[0].value.ast, val) if names else None
                    attr_operand = tr._ev_const(redirect[0][1], val)
                    orig = [x for x in em if x[0] == 'orig']
                    orig_operand = tr._ev_const(orig[0][1], val) if orig and widx else None
                except tr._Unknown:
                    raise AnalysisError('_patch_access_to_globals: operand expressions not evaluable for %s' % opname)
                want_idx = b >> s_op
                s_attr = shifted.get('LOAD_ATTR', 0)
                if idx != want_idx:
                    bad.append('on this interpreter the operand %d of %s denotes name index %d (dis.py: arg >> %d) but the patcher reads name %r' % (b, opname, want_idx, s_op, idx))
                elif attr_operand != (want_idx << s_attr):
                    bad.append('on this interpreter (%s) the name operand of LOAD_ATTR must be the name index shifted left by %d: for %s with operand %d (name %d) the patcher emits LOAD_ATTR %r, expected %d (`a + b` with two config names resolves the wrong attribute / crashes)' % (os.path.basename(path), s_attr, opname, b, want_idx, attr_operand, want_idx << s_attr))
                elif orig_operand is not None and orig_operand != ((W << s_op) | (b & ((1 << s_op) - 1))):
                    bad.append('the redirected %s is re-emitted with operand %r; expected the wrapper name index %d shifted by %d with the flag bits of the original operand (%d)' % (opname, orig_operand, W, s_op, (W << s_op) | (b & ((1 << s_op) - 1))))
        if seen_redirect:
            decoded_ops.append(opname)
    if 'LOAD_GLOBAL' not in decoded_ops or 'LOAD_NAME' not in decoded_ops:
        raise AnalysisError('_patch_access_to_globals: redirection of LOAD_GLOBAL / LOAD_NAME not recognised (redirected: %s)' % decoded_ops)
    if bad:
        for m in sorted(set(bad))[:3]:
            run.violation('C12.R5', fi, 'operand encoding of the redirected name load', m)
    else:
        run.ok('C12.R5', fi, 'operand encoding evaluated for %s x 6 operand bytes (%d redirecting paths)' % (decoded_ops, rows), 'name index read and LOAD_ATTR / re-emitted operands agree with %s' % os.path.basename(path))


def r5b(repo, run):
    """relocation of relative jumps evaluated: the code that re-targets one recorded relative jump (the body of the loop over them, or
    the helper it calls) is interpreted; the old absolute target it looks up in the location map is computed for concrete
    (position, distance) pairs and every jump opcode name - a jump whose name says BACKWARD goes back by its operand, every other
    one forward (this interpreter counts in code units)"""
    import sys
    from ..srcmodel import FuncInfo
    fi = repo.func('EvalNode._patch_access_to_globals')
    fam = _family(repo, fi)
    unit = None
    for g in fam:
        loops = [st for st in ast.walk(g.node) if isinstance(st, ast.For) and 'BACKWARD' in norm(st)]
        if loops:
            unit = (g, loops[-1])
            break
    if unit is None:
        for g in fam:
            if g is not fi and 'BACKWARD' in norm(g.node):
                unit = (g, None)
                break
    if unit is None:
        raise AnalysisError('_patch_access_to_globals: the code that re-targets relative jumps (BACKWARD test) was not found')
    g, loop = unit
    if loop is not None:
        # the loop is interpreted on its own: what it reads from the rest of the function (the recorded jump positions, the two
        # location maps, the rewritten code units) are free symbols
        bound = {n.id for n in ast.walk(loop) if isinstance(n, ast.Name) and isinstance(n.ctx, ast.Store)}
        free = sorted({n.id for n in ast.walk(loop) if isinstance(n, ast.Name) and isinstance(n.ctx, ast.Load)} - bound - {'python_is_at_least', 'dis', 'abs', 'len', 'range', 'True', 'False', 'None'})
        # interpreter facts computed once before the loop (`offsets_in_bytes = not python_is_at_least(3, 10)`) belong to the unit
        pre = []
        for st in g.node.body:
            if st is loop or (hasattr(st, 'lineno') and st.lineno >= loop.lineno):
                break
            if isinstance(st, ast.Assign) and len(st.targets) == 1 and isinstance(st.targets[0], ast.Name) and st.targets[0].id in free \
                    and all(n.id in ('python_is_at_least', 'sys', 'True', 'False') for n in ast.walk(st.value) if isinstance(n, ast.Name)) \
                    and sum(isinstance(n, ast.Name) and isinstance(n.ctx, ast.Store) and n.id == st.targets[0].id for n in ast.walk(g.node)) == 1:
                pre.append(st)
        free = [n for n in free if n not in {st.targets[0].id for st in pre}]
        synth = ast.FunctionDef(name='%s__jump_loop' % g.name, args=ast.arguments(posonlyargs=[], args=[ast.arg(arg=n) for n in free], kwonlyargs=[], kw_defaults=[], defaults=[]),
                                body=pre + [loop], decorator_list=[], returns=None, type_comment=None)
        ast.copy_location(synth, loop)
        synth.end_lineno = loop.end_lineno
        target = FuncInfo(synth, g.module, g.cls)
    else:
        target = g
    paths = Tracer(repo, follow_exceptions=False, max_paths=40000).trace(target)
    base = dict(tr.module_consts(g.module))
    for v in ((3, 8), (3, 9), (3, 10), (3, 11), (3, 12), (3, 13), (3, 14)):
        base['python_is_at_least(%d, %d)' % v] = tuple(sys.version_info[:2]) >= v
    J, R = 10, 4
    rows = 0
    bad = set()
    seen = False
    for p in paths:
        cands = [e.value.ast for e in p.events if e.kind == 'store' and e.value is not None]
        if p.status == 'return' and p.ret is not None:
            cands.append(p.ret.ast)
        for v in cands:
            if not (isinstance(v, ast.BinOp) and isinstance(v.op, ast.Add) and isinstance(v.right, ast.Call) and isinstance(v.right.func, ast.Attribute) and v.right.func.attr == 'to_bytes'):
                continue
            new_rel = v.right.func.value
            # the location-map lookup: a subscript whose index is computed (position +/- operand)
            look = [x for x in ast.walk(new_rel) if isinstance(x, ast.Subscript) and not isinstance(x.slice, (ast.Constant, ast.Slice)) and any(isinstance(y, ast.BinOp) and isinstance(y.op, (ast.Add, ast.Sub)) for y in ast.walk(x.slice))]
            if not look:
                continue
            idx = look[0].slice
            # the code unit of the jump: <units>[<k>] read as (opcode, operand) = [0], [1]; its position in the old code: <map>[<k>]
            unit_sub = None
            for x in ast.walk(idx):
                if isinstance(x, ast.Subscript) and isinstance(x.slice, ast.Constant) and x.slice.value == 1 and isinstance(x.value, (ast.Subscript, ast.Name)):
                    unit_sub = x.value          # the code unit of the jump: <units>[<k>] or a parameter that holds it
            if unit_sub is None:
                continue
            seen = True
            subst0 = {norm(ast.Subscript(value=unit_sub, slice=ast.Constant(value=1), ctx=ast.Load())): R}
            optext = norm(ast.Subscript(value=unit_sub, slice=ast.Constant(value=0), ctx=ast.Load()))
            if isinstance(unit_sub, ast.Subscript):
                key = norm(unit_sub.slice)
                for x in ast.walk(idx):
                    if isinstance(x, ast.Subscript) and norm(x.slice) == key and norm(x) != norm(unit_sub):
                        subst0[norm(x)] = J
            else:
                # helper form: the position of the jump in the old code is a lookup <map>[<parameter>] (the jump's new position is a parameter)
                pos = {norm(x) for x in ast.walk(idx) if isinstance(x, ast.Subscript) and isinstance(x.slice, ast.Name) and x is not look[0] and not (isinstance(x.value, ast.Name) and x.value.id == unit_sub.id)}
                if len(pos) == 1:
                    subst0[pos.pop()] = J
            if len(subst0) < 2:
                raise AnalysisError('_patch_access_to_globals: position of a relative jump in the old code not recognised in %s' % norm(idx)[:80])
            for opname in ('JUMP_BACKWARD', 'JUMP_BACKWARD_NO_INTERRUPT', 'JUMP_FORWARD', 'POP_JUMP_IF_FALSE', 'FOR_ITER', 'SEND'):
                sub = dict(base)
                sub['dis.opname[%s]' % optext] = opname
                if not tr.feasible(p, sub)[0]:
                    continue
                try:
                    got = tr._ev_const(idx, dict(sub, **subst0))
                except tr._Unknown:
                    raise AnalysisError('_patch_access_to_globals: old target of a relative jump not evaluable (%s)' % norm(idx)[:80])
                rows += 1
                want = J - R if 'BACKWARD' in opname else J + R
                if got != want:
                    bad.add('a %s at code unit %d with operand %d is taken to target unit %r, expected %d (%s jumps go %s)' % (opname, J, R, got, want, 'BACKWARD' if 'BACKWARD' in opname else 'other', 'back' if 'BACKWARD' in opname else 'forward'))
    if not seen or rows < 4:
        raise AnalysisError('_patch_access_to_globals: re-targeting of relative jumps not recognised (%d rows)' % rows)
    if bad:
        run.violation('C12.R5', fi, 're-targeting of relative jumps', '; '.join(sorted(bad)[:2]) + ': loops / conditionals in evaluated code jump to the wrong instruction after a name load was redirected')
    else:
        run.ok('C12.R5', fi, 're-targeting of relative jumps evaluated for 6 jump opcodes (%d rows)' % rows, 'backward jumps subtract their operand, all others add it')


def _start_variants(repo, fi, loop):
    """(start value, unit, loop statement): the patcher as it is (the instruction loop starts at 0) and, when the loop is a `while`
    over a counter initialised by a plain `<name> = 0` in the same body, a copy whose counter starts at 4 (so that expressions
    that are only right at position 0 show)"""
    import copy
    from ..srcmodel import FuncInfo
    out = [(0, fi, loop)]
    if isinstance(loop, ast.While):
        names = {n.id for n in ast.walk(loop.test) if isinstance(n, ast.Name)}
        body = fi.node.body
        k = body.index(loop) if loop in body else -1
        for j in range(k - 1, -1, -1):
            st = body[j]
            if isinstance(st, ast.Assign) and len(st.targets) == 1 and isinstance(st.targets[0], ast.Name) and st.targets[0].id in names \
                    and isinstance(st.value, ast.Constant) and st.value.value == 0 and type(st.value.value) is int:
                node2 = copy.deepcopy(fi.node)
                node2.body[j].value = ast.copy_location(ast.Constant(value=4), node2.body[j].value)
                out.append((4, FuncInfo(node2, fi.module, fi.cls), node2.body[k]))
                break
    return out


def r5c(repo, run):
    """layout of the instruction loop, read off one interpreted iteration (positions are concrete: the loop counter starts at a
    known value S): the opcode is the byte at S and its operand the byte at S+1; what is copied from the old code are whole 2-byte
    units (or the opcode byte alone, completed by a 1-byte operand) that tile [S, counter after the iteration) without gap or overlap,
    so the counter advances by 2 per consumed unit; the instruction's new position is recorded under its unit index S/2;
    operands are single bytes (to_bytes(1, ..)); nothing is assumed about inline cache bytes other than that they are zero; and a
    redirected load is reported to the caller (the rewritten code is otherwise thrown away)"""
    fi = repo.func('EvalNode._patch_access_to_globals')
    loop = _decode_loop(fi, repo)
    bad = set()
    rows = 0
    redirects = 0
    for S, unit, lp in _start_variants(repo, fi, loop):
        paths = Tracer(repo, follow_exceptions=False, max_paths=20000).trace(unit, upto=lp)
        ctr = None
        if isinstance(lp, ast.While):
            nm = [n.id for n in ast.walk(lp.test) if isinstance(n, ast.Name)]
            ctr = [n for n in nm if any(n in p.env for p in paths)]
        for p in paths:
            if p.status != 'cut':
                continue

            def ev(node):
                try:
                    return tr._ev_const(node, {})
                except tr._Unknown:
                    return None
            reads, units = [], []
            symbolic = False
            for e in p.events:
                if e.kind != 'subscr' or not (e.callee or '').endswith('co_code'):
                    continue
                sl = e.value.ast
                if isinstance(sl, ast.Slice):
                    a, b = ev(sl.lower) if sl.lower is not None else 0, ev(sl.upper) if sl.upper is not None else None
                    if a is None or b is None or sl.step is not None:
                        symbolic = True
                        continue
                    units.append((a, b, e))
                else:
                    r = ev(sl)
                    if r is None:
                        symbolic = True
                        continue
                    reads.append((r, e))
            if symbolic:
                continue       # positions that depend on a symbolic count (a loop over range(caches)): this path proves nothing
            if not reads and not units:
                continue
            rows += 1
            starts = []
            for a, b, e in units:
                if (a - S) % 2 or a < S or b - a not in (1, 2) or (b - a == 1 and a != S):
                    bad.add('with the loop counter at %d the bytes [%d:%d] of the old code are copied: not a whole 2-byte instruction unit of this iteration (or its opcode byte)' % (S, a, b))
                starts.append(a)
            if len(set(starts)) != len(starts):
                bad.add('with the loop counter at %d the unit at %d is copied twice in one iteration (redirected and copied unchanged)' % (S, sorted(x for x in starts if starts.count(x) > 1)[0]))
            elif starts and sorted(starts) != list(range(S, S + 2 * len(starts), 2)):
                bad.add('with the loop counter at %d the copied units start at %s: they do not tile the old code from %d on' % (S, sorted(starts), S))
            for r, e in reads:
                if r == S or r == S + 1 or r in starts or (r - S) % 2 == 0 and S < r <= S + 2 * len(starts):
                    continue
                bad.add('with the loop counter at %d (opcode at %d, operand at %d) the byte at %d is read (%s)' % (S, S, S + 1, r, e.result.text[:40] if e.result is not None else '?'))
            opreads = [r for r, e in reads if any(x.kind == 'subscr' and x.callee == 'dis.opname' and e.result is not None and x.value.text == e.result.text for x in p.events)]
            if opreads and set(opreads) != {S}:
                bad.add('with the loop counter at %d the opcode is taken from the byte at %s' % (S, sorted(set(opreads))))
            names = [x for x in p.events if x.kind == 'subscr' and (x.callee or '').endswith('co_names')]
            for x in names:
                src = [n for n in ast.walk(x.value.ast) if isinstance(n, ast.Subscript) and norm(n.value).endswith('co_code')]
                for n in src:
                    k_ = ev(n.slice)
                    if k_ is not None and k_ != S + 1:
                        bad.add('with the loop counter at %d the name index is decoded from the byte at %d; the operand of the instruction at %d is the byte at %d' % (S, k_, S, S + 1))
            if ctr:
                endv = p.env.get(ctr[0])
                end = ev(endv.ast) if endv is not None else None
                if end is None:
                    raise AnalysisError('_patch_access_to_globals: loop counter after one iteration not evaluable')
                if end != S + 2 * len(starts):
                    bad.add('one iteration starting at %d consumes %d unit(s) of 2 bytes but leaves the counter at %d (expected %d): the next opcode is read from the middle of an instruction' % (S, len(starts), end, S + 2 * len(starts)))
            for e in p.events:
                if e.kind == 'call' and e.attr == 'to_bytes':
                    n_ = ev(e.args[0].ast) if e.args else (ev(e.kw['length'].ast) if 'length' in e.kw else 1)
                    if n_ != 1 or type(n_) is not int:
                        bad.add('an operand / opcode is encoded with to_bytes(%s): every half of a code unit is exactly one byte' % ', '.join(a.text for a in e.args))
                if e.kind == 'store' and e.value is not None and e.value.text.startswith('len(') and e.target and e.target.endswith(']'):
                    try:
                        t = ast.parse(e.target, mode='eval').body
                    except SyntaxError:
                        continue
                    if isinstance(t, ast.Subscript):
                        k_ = ev(t.slice)
                        if k_ is not None and k_ != S // 2:
                            bad.add('the new position of the instruction at byte %d is recorded under key %r, expected its unit index %d (jumps are re-targeted through this map)' % (S, k_, S // 2))
            for t, pol in p.facts:
                try:
                    f_ = ast.parse(t, mode='eval').body
                except SyntaxError:
                    continue
                if isinstance(f_, ast.Compare) and len(f_.ops) == 1 and isinstance(f_.left, ast.Subscript) and norm(f_.left.value).endswith('co_code') and not isinstance(f_.left.slice, ast.Slice):
                    k_, c_ = ev(f_.left.slice), ev(f_.comparators[0])
                    if k_ is not None and k_ in starts and k_ > S and c_ is not None:
                        holds_for_zero = (isinstance(f_.ops[0], ast.Eq) and c_ == 0) or (isinstance(f_.ops[0], ast.NotEq) and c_ != 0)
                        if holds_for_zero != pol:
                            bad.add('the copy of an inline cache entry (byte %d) goes on only if %s is %s: cache entries of compiled code are zero' % (k_, t, pol))
            if any(x[0] == 'LOAD_ATTR' for x in _emissions(p)):
                redirects += 1
                flags = [v for k, v in p.env.items() if v.const is True or v.const is False]
                rep_ = p.env.get('done_something')
                if rep_ is not None and rep_.const is not True:
                    bad.add('a redirected name load leaves done_something = %s: the caller is told nothing was patched and keeps the original code' % rep_.text)
    # every half of a code unit written anywhere in the patcher (also when jumps are re-targeted) is one byte
    for g in _family(repo, fi):
        for c in ast.walk(g.node):
            if isinstance(c, ast.Call) and isinstance(c.func, ast.Attribute) and c.func.attr == 'to_bytes' and (c.args or c.keywords):
                ln = c.args[0] if c.args else next((k.value for k in c.keywords if k.arg == 'length'), None)
                if isinstance(ln, ast.Constant) and (ln.value != 1 or type(ln.value) is not int):
                    bad.add('an operand / opcode is encoded with to_bytes(%s) in %s: every half of a code unit is exactly one byte' % (', '.join(norm(a) for a in c.args), g.qualname.split('.')[-1]))
    if rows < 4 or redirects < 2:
        raise AnalysisError('_patch_access_to_globals: instruction loop not interpreted (%d iterations paths, %d redirecting)' % (rows, redirects))
    if bad:
        for m in sorted(bad)[:3]:
            run.violation('C12.R5', fi, 'instruction layout of the rewriting loop', m)
    else:
        run.ok('C12.R5', fi, 'instruction layout: %d iteration paths (%d redirecting) from start positions 0 and 4' % (rows, redirects), 'opcode at S, operand at S+1, whole units tiled, counter += 2 per unit, unit index keys, 1-byte halves')


def r6(repo, run):
    loop = _decode_loop(repo.func('EvalNode._patch_access_to_globals'), repo)
    fi, paths = _patcher_paths(repo, loop)
    rec_seen = False
    for p in paths:
        rec = [e for e in p.events if e.kind == 'call' and e.callee == 'EvalNode._patch_access_to_globals' and e.args and 'co_consts' in e.args[0].text]
        rec_seen = rec_seen or bool(rec)
        if p.status == 'return':
            fin = tr.final_event(p)
            run.violation('C12.R6', tr.where(fi, fin), 'early return before / inside the instruction loop', 'the patcher returns before it has rewritten the instructions%s: names used inside nested functions / lambdas / comprehensions of such a code object are not redirected to the config [%s]' % ('' if rec else ' and before it has recursed into nested code objects', tr.describe(p, 4)))
            return
    if not rec_seen:
        run.violation('C12.R6', fi, 'nested code objects', 'nested code objects (co_consts) are not patched recursively')
        return
    run.ok('C12.R6', fi, 'every nested code object in co_consts is patched first; no return before the instruction loop completes')
    # the "nothing to do" shortcut after the loop must consider nested changes
    after = [s_ for s_ in fi.node.body if s_.lineno > loop.lineno and isinstance(s_, ast.If) and any(isinstance(x, ast.Return) for x in ast.walk(s_))]
    if not after:
        run.info('C12.R6', fi, 'unchanged-code shortcut', 'no shortcut return after the loop')
        return
    _, paths2 = _patcher_paths(repo, after[0])
    # per kind of change: the paths on which it happened (and the other kind did not) either all take the shortcut - the defect - or
    # some go on to rebuild the code object (a flag carried out of the loop through a helper's result is not always a constant for
    # the interpreter: the paths it cannot exclude prove nothing, the ones that go on prove the flag is consulted)
    took = {'nested': [], 'redirect': []}
    went_on = {'nested': 0, 'redirect': 0}
    for p in paths2:
        nested_changed = any(pol and t.startswith('EvalNode._patch_access_to_globals(') and t.endswith('[1]') for t, pol in p.facts)
        redirected = any(x[0] == 'LOAD_ATTR' for x in _emissions(p))
        kind = 'redirect' if redirected and not nested_changed else ('nested' if nested_changed and not redirected else None)
        if kind is None:
            continue
        if p.status == 'return' and p.ret is not None and p.ret.elems is not None and len(p.ret.elems) == 2 and p.ret.elems[1].const is False:
            took[kind].append(p)
        elif p.status in ('cut', 'return'):
            went_on[kind] += 1
    for kind in ('nested', 'redirect'):
        if took[kind] and not went_on[kind]:
            p = took[kind][0]
            run.violation('C12.R6', tr.where(fi, tr.final_event(p)), 'unchanged-code shortcut', 'the unchanged-code shortcut does not account for %s: the original code object is returned' % ('patched nested code objects' if kind == 'nested' else 'redirected instructions'))
            return
    run.ok('C12.R6', fi, 'unchanged-code shortcut taken only when neither this code object nor a nested one was patched')


def r6b(repo, run):
    """the patcher evaluated on a code object without instructions of its own, over which of its nested code objects (co_consts) needed
    patching (the recursive call is a stand-in answering (patched copy, True) / (same object, False)): the result is a rebuilt code
    object reported as changed exactly when some nested code object changed, and its constants are the patched copies and the
    untouched constants, in the original order"""
    import sys
    import types
    from ..fde import FDE, Obj, Unsupported
    fi = repo.func('EvalNode._patch_access_to_globals')

    class Fields(dict):
        def __contains__(self, k):
            return isinstance(k, str) and k.startswith('co_')

        def __getitem__(self, k):
            return dict.__getitem__(self, k) if dict.__contains__(self, k) else ('original', k)

        def get(self, k, d=None):
            return self[k] if k in self else d
    bad = []
    rows = 0
    for flags in ((True,), (False,), (True, False), (False, True), (True, True), (False, False), (None,), (True, None, False), (None, False, True), (False, None, True, False)):
        consts = [Obj('c%d' % i, 'code') if fl is not None else 5 for i, fl in enumerate(flags)]
        code = Obj('code', 'code')
        code.f = Fields(co_consts=tuple(consts), co_code=b'', co_names=())
        captured = []

        def ctor(*a, **k):
            captured.append((a, k))
            return 'NEW'

        def stub(name, recv, a, k, flags=flags):
            if name == 'python_is_at_least':
                return tuple(sys.version_info[:2]) >= tuple(a)
            if name == '_patch_access_to_globals':
                c = a[0]
                i = int(c.name[1:])
                return (Obj(c.name + 'p', 'code') if flags[i] else c, bool(flags[i]))
            raise Unsupported('call of ' + name)
        ev = FDE(repo, stubs={'python_is_at_least', '_patch_access_to_globals'}, stub=stub)
        ev.extcalls['types.CodeType'] = ctor
        ev.extcalls['code.replace'] = lambda **k: (captured.append(((), k)), 'NEW')[1]
        ev.externals = {'types.CodeType': types.CodeType}
        r = fde_guard(lambda: ev.call(fi, code))
        rows += 1
        what = 'a code object whose nested code objects %s' % (', '.join('#%d %s' % (i, 'needs patching' if fl else 'is fine') for i, fl in enumerate(flags) if fl is not None) or 'do not exist')
        changed = any(flags)
        if r.raised or not isinstance(r.ret, (tuple, list)) or len(r.ret) != 2:
            bad.append('%s: %s' % (what, 'raises ' + str(r.raised) if r.raised else 'returns %r' % (r.ret,)))
            continue
        got, flag = r.ret
        if not changed:
            if got is not code or flag is not False:
                bad.append('%s: returns (%s, %r), expected the original code object and False' % (what, getattr(got, 'name', got), flag))
            continue
        if flag is not True or got != 'NEW':
            bad.append('%s: returns (%s, %r) - the original code object with its unpatched nested functions is kept; names used inside those functions are then looked up in the real globals' % (what, getattr(got, 'name', got), flag))
            continue
        want = [('c%dp' % i if fl else 'c%d' % i) if fl is not None else 5 for i, fl in enumerate(flags)]
        vals = [v for a, k in captured for v in list(a) + list(k.values())]
        cs = [[getattr(x, 'name', x) for x in v] for v in vals if isinstance(v, (tuple, list)) and v and all(isinstance(x, (Obj, int)) and not isinstance(x, bool) for x in v) and any(isinstance(x, Obj) for x in v)]
        if want not in cs:
            bad.append('%s: the rebuilt code object gets the constants %s, expected %s' % (what, cs[:1] or 'none', want))
    run.table('C12.R6', rows, 'nested code objects x needs patching')
    if bad:
        run.violation('C12.R6', fi, 'nested code object table', bad[0] + (' [%d rows]' % len(bad) if len(bad) > 1 else ''), witness=bad[:4])
    else:
        run.ok('C12.R6', fi, 'nested code objects (%d rows)' % rows, 'changed iff any nested code object changed; constants replaced in place, order kept')


def _family(repo, fi):
    """the function and the private helpers of its module that are reachable only from it (code moved out of it)"""
    out = [fi]
    for g in list(fi.module.functions.values()) + [m for c in fi.module.classes.values() for m in c.methods.values()] if hasattr(fi.module, 'classes') else list(fi.module.functions.values()):
        if g is not fi and only_reached_from(repo, g.qualname, {fi.qualname}):
            out.append(g)
    return out


class _Multi(ast.AST):
    _fields = ('body',)


class _CodeFields(dict):
    """fields of the original code object: every co_* attribute exists and evaluates to a marker naming it"""

    def __contains__(self, k):
        return isinstance(k, str) and k.startswith('co_')

    def __getitem__(self, k):
        return ('original', k)


def _ctor_by_evaluation(repo, run, fi, fam, inserts):
    """the code object is not built by a literal types.CodeType(...) call (aliased constructor, argument list computed from a
    table of field names): the helper that mentions types.CodeType is evaluated (finite-domain evaluator, interpreter >= 3.11
    branch) on a symbolic original code object, and the constructor's actual arguments are inspected"""
    from ..fde import FDE, Obj, Unsupported
    n = 0
    for g in fam:
        def _type_test_only(x):
            par = getattr(x, '_parent', None)
            while isinstance(par, ast.Tuple):
                par = getattr(par, '_parent', None)
            return isinstance(par, ast.Call) and isinstance(par.func, ast.Name) and par.func.id in ('isinstance', 'issubclass') and x is not par.func
        if not any(isinstance(x, ast.Attribute) and norm(x) == 'types.CodeType' and not _type_test_only(x) for x in ast.walk(g.node)):
            continue
        sites = [c for f in fam for c in calls_in(f.node) if isinstance(c.func, ast.Name) and c.func.id == g.name and f is not g]
        if not sites or g.node.args.vararg or g.node.args.kwarg:
            continue
        code_param = fi.params()[0] if fi.params() else None
        args = []
        for a, pn in zip(sites[0].args, g.params()):
            if isinstance(a, ast.Name) and a.id == code_param:
                o = Obj('code', '<code object>')
                o.f = _CodeFields()
                args.append(o)
            else:
                args.append(['<%s>' % pn])
        if len(args) != len(g.params()):
            continue
        captured = []

        def ctor(*a, **k):
            captured.append((a, k))
            return 'new code object'
        ctor._fde_ok = True
        ev = FDE(repo, stubs={'python_is_at_least'}, stub=lambda name, recv, a, k: True)
        ev.extcalls['types.CodeType'] = ctor
        try:
            ev.call(g, *args)
        except Unsupported as e:
            raise AnalysisError('%s: construction of the new code object could not be evaluated: %s' % (g.qualname, e))
        for a, k in captured:
            n += 1
            vals = list(a) + list(k.values())
            if ('original', 'co_exceptiontable') in vals and inserts:
                run.violation('C12.R7', fi, 'types.CodeType(..., code.co_exceptiontable, ...)', 'the exception table (byte offsets of try/with ranges and handlers) of the original code is attached unchanged to bytecode into which instructions were inserted: a try/with block after a redirected name load no longer covers its body (an exception raised there is not caught)', node=sites[0])
            else:
                run.ok('C12.R7', (fi.file, g.node.lineno, fi.qualname), 'exception table is not passed verbatim', 'recomputed or no instruction inserted (constructor arguments evaluated from %s)' % g.qualname)
    return n


def r7r8(repo, run):
    fi = repo.func('EvalNode._patch_access_to_globals')
    fam = _family(repo, fi)
    whole = _Multi()
    whole.body = [f.node for f in fam]
    inserts = any(isinstance(x, ast.Subscript) and norm(x.value) == 'dis.opmap' for x in ast.walk(whole))
    n = 0
    fi_node_all = whole
    for c in [c for f in fam for c in calls_in(f.node)]:
        if norm(c.func) == 'types.CodeType' or (isinstance(c.func, ast.Attribute) and c.func.attr == 'replace' and any(k.arg == 'co_code' for k in c.keywords)):
            n += 1
            verbatim = [a for a in list(c.args) + [k.value for k in c.keywords] if isinstance(a, ast.Attribute) and a.attr == 'co_exceptiontable']
            replaced = isinstance(c.func, ast.Attribute) and c.func.attr == 'replace' and not any(k.arg == 'co_exceptiontable' for k in c.keywords)
            if (verbatim or replaced) and inserts:
                run.violation('C12.R7', fi, 'types.CodeType(..., code.co_exceptiontable, ...)', 'the exception table (byte offsets of try/with ranges and handlers) of the original code is attached unchanged to bytecode into which instructions were inserted: a try/with block after a redirected name load no longer covers its body (an exception raised there is not caught)', node=c)
            else:
                run.ok('C12.R7', (fi.file, c.lineno, fi.qualname), 'exception table is not passed verbatim', 'recomputed or no instruction inserted')
    if n == 0:
        n = _ctor_by_evaluation(repo, run, fi, fam, inserts)
    if n == 0:
        raise AnalysisError('_patch_access_to_globals: construction of the new code object not found')
    src = ' '.join(norm(f.node) for f in fam)
    # single-byte operand accesses, whatever the variables are called: <x>.co_code[<i> + 1] reads and <operand>.to_bytes(1, ...) writes
    # whose receiver is not an opcode number
    single_read = [x for x in ast.walk(whole) if isinstance(x, ast.Subscript) and norm(x.value).endswith('.co_code') and isinstance(x.slice, ast.BinOp) and isinstance(x.slice.op, ast.Add)
                   and isinstance(x.slice.right, ast.Constant) and x.slice.right.value == 1]
    single_write = [c for c in [c for f in fam for c in calls_in(f.node)] if isinstance(c.func, ast.Attribute) and c.func.attr == 'to_bytes' and c.args and norm(c.args[0]) == '1'
                    and not (isinstance(c.func.value, ast.Subscript) and norm(c.func.value.value) == 'dis.opmap') and not isinstance(c.func.value, ast.Constant)]
    handles_ext = 'EXTENDED_ARG' in src
    if (single_read or single_write) and not handles_ext:
        run.violation('C12.R8', fi, 'single-byte operands without EXTENDED_ARG',
                      'operands are read from / written to one byte (%d reads, %d writes) and EXTENDED_ARG prefixes are ignored: code whose (shifted) name index or jump distance needs more than 8 bits cannot be translated (OverflowError / wrong name)' % (len(single_read), len(single_write)), node=(single_read or single_write)[0])
    else:
        run.ok('C12.R8', fi, 'operand width', 'EXTENDED_ARG handled or no single-byte access')


def check(repo, run, tier):
    g = Guard()
    g(r7r8, repo, run)
    g(r1, repo, run)
    g(r1b, repo, run)
    g(r1c, repo, run)
    g(r2, repo, run)
    g(r3, repo, run)
    g(r4, repo, run)
    g(r5, repo, run)
    g(r5b, repo, run)
    g(r5c, repo, run)
    g(r6, repo, run)
    g(r6b, repo, run)
    g(unitrules.config_entry, repo, run, 'C12.R9')
    g(unitrules.eval_context_init, repo, run, 'C12.R1')
    g(unitrules.eval_pipeline, repo, run, 'C12.R10')
    g(unitrules.tag_spec, repo, run, 'C12.R4', ['!eval', '!fstr', '!import'])
    g(unitrules.fstr_wrap_table, repo, run, 'C12.R4')
    g(unitrules.version_test_table, repo, run, 'C12.R5')
    g(unitrules.namespace_reuse_guard, repo, run, 'C12.R1b')
    g.done()


def mutants(repo):
    return [
        Mutant('jump-operand-to-bytes-swapped', lambda r: in_func(r, 'EvalNode._patch_access_to_globals', "new_loc_rel.to_bytes(1, 'little')", "new_loc_rel.to_bytes('little', 1)"), ['C12.R5']),
        Mutant('fstr-apostrophes-not-escaped', lambda r: in_func(r, 'yaml._fstr_constructor', """value.replace(r"'", r"\\'")""", """value.replace("'", "\\'")"""), ['C12.R4']),
        Mutant('namespace-module-looked-up-when-absent', lambda r: in_func(r, 'EvalNode.ayns.on_evaluate_impl', "if self.persistent_namespace and eval_module_name in sys.modules:", "if self.persistent_namespace and eval_module_name not in sys.modules:"), ['C12.R1']),
        Mutant('nested-change-flag-overwritten', lambda r: in_func(r, 'EvalNode._patch_access_to_globals', "                if done_something_sub:\n                    done_something = True\n", "                done_something = done_something_sub\n"), ['C12.R6']),
        Mutant('patched-constant-dropped', lambda r: in_func(r, 'EvalNode._patch_access_to_globals', "                return new_const\n", "                return const\n"), ['C12.R6']),
        Mutant('operand-read-before-opcode', lambda r: in_func(r, 'EvalNode._patch_access_to_globals', "arg = code.co_code[i+1]", "arg = code.co_code[i-1]"), ['C12.R5']),
        Mutant('loop-stride-three', lambda r: in_func(r, 'EvalNode._patch_access_to_globals', "                new_bytecode.append(code.co_code[i:i+2])\n\n            i += 2", "                new_bytecode.append(code.co_code[i:i+2])\n\n            i += 3"), ['C12.R5']),
        Mutant('cache-stride-three', lambda r: in_func(r, 'EvalNode._patch_access_to_globals', "                            new_bytecode.append(code.co_code[i+2:i+4])\n                            i += 2", "                            new_bytecode.append(code.co_code[i+2:i+4])\n                            i += 3"), ['C12.R5']),
        Mutant('cache-copied-from-behind', lambda r: in_func(r, 'EvalNode._patch_access_to_globals', "new_bytecode.append(code.co_code[i+2:i+4])", "new_bytecode.append(code.co_code[i-2:i+4])"), ['C12.R5']),
        Mutant('cache-bytes-asserted-nonzero', lambda r: in_func(r, 'EvalNode._patch_access_to_globals', "assert code.co_code[i+2] == 0", "assert code.co_code[i+2] != 0"), ['C12.R5']),
        Mutant('redirected-unit-also-copied', lambda r: in_func(r, 'EvalNode._patch_access_to_globals', "                    done = True\n", "                    done = False\n"), ['C12.R5']),
        Mutant('patched-code-not-reported', lambda r: in_func(r, 'EvalNode._patch_access_to_globals', "                    done_something = True\n                    done = True", "                    done_something = False\n                    done = True"), ['C12.R5']),
        Mutant('loop-starts-at-one', lambda r: in_func(r, 'EvalNode._patch_access_to_globals', "        i = 0\n        while", "        i = 1\n        while"), ['C12.R5']),
        Mutant('to-bytes-arguments-swapped', lambda r: in_func(r, 'EvalNode._patch_access_to_globals', "new_arg.to_bytes(1, 'little')", "new_arg.to_bytes('little', 1)"), ['C12.R5']),
        Mutant('location-key-in-thirds', lambda r: in_func(r, 'EvalNode._patch_access_to_globals', "                location_map[i//2] = len(new_bytecode)\n                new_bytecode.append(code.co_code[i:i+2])", "                location_map[i//3] = len(new_bytecode)\n                new_bytecode.append(code.co_code[i:i+2])"), ['C12.R5']),
        Mutant('namespace-reuse-condition', lambda r: in_func(r, 'EvalNode.ayns.on_evaluate_impl', "if self.persistent_namespace and eval_module_name in sys.modules:", "if self.persistent_namespace or eval_module_name in sys.modules:"), ['C12.R1b']),
        Mutant('backward-jumps-go-forward', lambda r: in_func(r, 'EvalNode._patch_access_to_globals', "            if is_backward:\n                old_loc_abs = old_jump_loc - old_loc_rel", "            if not is_backward:\n                old_loc_abs = old_jump_loc - old_loc_rel"), ['C12.R5']),
        Mutant('backward-flag-never-set', lambda r: in_func(r, 'EvalNode._patch_access_to_globals', "                is_backward = True\n", "                is_backward = False\n"), ['C12.R5']),
        Mutant('leading-lines-not-executed', lambda r: in_func(r, 'EvalNode.ayns.on_evaluate_impl', "            exec(exec_code_patched, gbls)\n", ""), ['C12.R10']),
        Mutant('published-module-empty', lambda r: in_func(r, 'EvalNode.ayns.on_evaluate_impl', "            eval_node_module.__dict__.update(gbls)\n", ""), ['C12.R10']),
        Mutant('publish-condition-negated', lambda r: in_func(r, 'EvalNode.ayns.on_evaluate_impl', "if len(lines) > 1 and self.persistent_namespace and not from_module:", "if not (len(lines) > 1 and self.persistent_namespace and not from_module):"), ['C12.R1b']),
        Mutant('caller-symbols-dropped', lambda r: in_func(r, 'EvalContext.__init__', "            self._eval_symbols.update(eval_symbols)\n", "            pass\n"), ['C12.R1']),
        Mutant('build-drops-caller-context', lambda r: in_func(r, 'Config.build', "return Config(b.build(), eval_ctx=eval_ctx)", "return Config(b.build())"), ['C12.R9']),
        Mutant('symbols-leak-into-defaults', lambda r: in_func(r, 'EvalContext.get_eval_symbols', "        return self._eval_symbols", "        merged = EvalContext.get_default_eval_symbols()\n        merged.update(self._eval_symbols)\n        return merged"), ['C12.R1']),
        Mutant('context-shares-default-symbols', lambda r: in_func(r, 'EvalContext.__init__', "self._eval_symbols = copy.copy(EvalContext._default_eval_symbols)", "self._eval_symbols = EvalContext._default_eval_symbols"), ['C12.R1']),
        Mutant('wrapper-persisted-in-cached-namespace', lambda r: in_func(r, 'EvalNode.ayns.on_evaluate_impl', "        del gbls[EvalNode._globals_wrapper_name]\n", ""), ['C12.R1b']),
        Mutant('wrapper-only-for-fresh-namespace', lambda r: in_func(r, 'EvalNode.ayns.on_evaluate_impl', "        gbls[EvalNode._globals_wrapper_name] = GlobalsWrapper(gbls, ctx.ecfg, ctx, self, path)\n", "        if not from_module:\n            gbls[EvalNode._globals_wrapper_name] = GlobalsWrapper(gbls, ctx.ecfg, ctx, self, path)\n"), ['C12.R1b']),
        Mutant('repeated-lookup-of-a-name-refused', lambda r: in_func(r, 'GlobalsWrapper.__getattr__', "            with self.ctx.require_all_safe(self.node, self.path):\n                return self.ecfg[name]", "            busy = self.ctx.__dict__.setdefault('_busy_names', set())\n            if name in busy:\n                raise NameError(name)\n            busy.add(name)\n            try:\n                with self.ctx.require_all_safe(self.node, self.path):\n                    return self.ecfg[name]\n            finally:\n                busy.discard(name)"), ['C12.R2']),
        Mutant('config-before-own-globals', lambda r: in_func(r, 'GlobalsWrapper.__getattr__',
               "        if name in self.gbls:\n            return self.gbls[name]\n\n        if name in self.ecfg._cfgobj:\n            with self.ctx.require_all_safe(self.node, self.path):\n                return self.ecfg[name]\n        elif",
               "        if name in self.ecfg._cfgobj:\n            with self.ctx.require_all_safe(self.node, self.path):\n                return self.ecfg[name]\n        elif name in self.gbls:\n            return self.gbls[name]\n        elif"), ['C12.R2']),
        Mutant('symbols-not-merged', lambda r: in_func(r, 'EvalNode.ayns.on_evaluate_impl', "            gbls.update(ctx.get_eval_symbols())\n", ""), ['C12.R2']),
        Mutant('user-exception-loses-cause', lambda r: in_func(r, 'EvalNode.ayns.on_evaluate_impl',
               "            raise EvalError('The above exception occurred in the user code.', self, path, note=code) from e\n\n        del", "            raise EvalError('The above exception occurred in the user code.', self, path, note=code)\n\n        del"), ['C12.R3']),
        Mutant('F11-reverted-none-filename', lambda r: in_func(r, 'EvalNode.ayns.on_evaluate_impl', "exec_code = compile(exec_lines, filename, 'exec')", "exec_code = compile(exec_lines, self._source_file, 'exec')"), ['C12.R4']),
        Mutant('load-global-decoded-unshifted', lambda r: in_func(r, 'EvalNode._patch_access_to_globals', "arg_shifted = (python_is_at_least(3, 11) and dis.opname[op] == 'LOAD_GLOBAL')", "arg_shifted = False"), ['C12.R5']),
        Mutant('F17-reverted-load-attr-unshifted', lambda r: in_func(r, 'EvalNode._patch_access_to_globals', "attr_arg = (arg << 1) if python_is_at_least(3, 12) else arg", "attr_arg = arg"), ['C12.R5']),
        Mutant('patcher-fast-path-before-recursion', lambda r: in_func(r, 'EvalNode._patch_access_to_globals', "        done_something = False\n", "        done_something = False\n        if not code.co_names:\n            return code, False\n"), ['C12.R6']),
        Mutant('neutral-rename-lines-var', lambda r: in_func(r, 'EvalNode.ayns.on_evaluate_impl', "eval_line", "last_line", None), neutral=True),
    ]
