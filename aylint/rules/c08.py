"""C08 - !notnew (and command-line overrides) can change but never create paths."""
import ast

from ..fde import FDE
from ..mutate import Mutant, in_func, delete_stmt
from ..report import AnalysisError
from ..srcmodel import unparse, norm, walk_no_nested, calls_in, fold_const
from .common import (is_method_call, recv_of, get_kw, node_obj, F3, fde_guard, cfg_of, facts_at, find_stmt_node)
from . import mergerules as mr
from . import mergetrace as mt
from .tagtable import check_flag_tags, constructors

from .common import Guard  # noqa: E402

PROP = 'C08'
DECIDED = [
    'R1: in the container merge every attachment of newer content is preceded by the new-path check (on the value for a new key, below a replaced leaf; recursion covers merged containers); the wholesale-replacement return is preceded by other._require_all_new(path, exceptions=removed).',
    'R2: Builder.flatten checks the first stage with _require_all_new([]) before folding; merge(None) raises when allow_new is false.',
    'R3: flag semantics tables: implicit_allow_new of a child = explicit else inherited; ayns.allow_new = inherited else True; both _require_all_new implementations raise exactly when allow_new is false and the path is not excepted; the container one walks nodes_with_paths(prefix=path, include_self=...).',
    'R5: process_cmdline restores consecutive list indices (read right-to-left) to their written order.',
    'R4: process_cmdline defaults to a tag whose constructor sets allow_new=False and build_from_cmdline does not override it; !new/!notnew constructors set exactly allow_new.',
]
UNDECIDED = ['the a.b[i].c=value text grammar;', '"nothing else changes" as data.']


def r1_replacement(repo, run):
    mt.wholesale_check(repo, run, 'C08.R1')


def r2(repo, run):
    mt.first_stage_check(repo, run, 'C08.R2')
    mg = repo.func('ConfigNode.ayns.merge')
    res = {}
    for an in (None, True, False):
        o = node_obj('n', _implicit_allow_new=an)
        f = FDE(repo)
        r = fde_guard(lambda: f.call(mg, o, None))
        res[an] = r.raised
    if res[False] is None or res[True] is not None or res[None] is not None:
        run.violation('C08.R2', mg, 'merge(None)', 'merging onto nothing: allow_new None/True/False -> %s' % res)
    else:
        run.ok('C08.R2', mg, 'merge(None) raises iff allow_new is false')


def r3(repo, run):
    gk = repo.func('ComposedNode._get_child_kwargs')
    bad = []
    for a in F3:
        for i in F3:
            p = node_obj('p', 'ComposedNode', _allow_new=a, _implicit_allow_new=i)
            f = FDE(repo)
            r = fde_guard(lambda: f.call(gk, p))
            exp = a if a is not None else i
            if r.ret.get('implicit_allow_new') is not exp:
                bad.append((a, i, r.ret.get('implicit_allow_new'), exp))
    if bad:
        run.violation('C08.R3', gk, '_get_child_kwargs implicit_allow_new', 'explicit=%r inherited=%r hands %r to children (expected %r)' % bad[0], witness=bad)
    else:
        run.ok('C08.R3', gk, 'child implicit_allow_new = explicit else inherited (9 rows)', 'a nested !new re-allows, a nested !notnew forbids')
    getter = repo.func('ConfigNode.ayns.allow_new')
    bad = []
    for i in F3:
        for a in F3:
            o = node_obj('n', _allow_new=a, _implicit_allow_new=i)
            f = FDE(repo)
            v = fde_guard(lambda: f.getter(o, 'allow_new'))
            exp = i if i is not None else True
            if v is not exp:
                bad.append((a, i, v, exp))
    if bad:
        run.violation('C08.R3', getter, 'ayns.allow_new table', 'explicit=%r inherited=%r gives %r (expected %r)' % bad[0], witness=bad)
    else:
        run.ok('C08.R3', getter, 'ayns.allow_new = inherited else True (9 rows)')
    # leaf _require_all_new
    leaf = repo.func('ConfigNode.ayns._require_all_new')
    bad = []
    for i in F3:
        for exc in (None, ['p'], ['q']):
            for inc in (True, False):
                o = node_obj('n', _implicit_allow_new=i)
                f = FDE(repo)
                r = fde_guard(lambda: f.call(leaf, o, 'p', 'reason', exceptions=exc, include_self=inc))
                exp = (i is False) and inc and (exc is None or 'p' not in exc)
                if bool(r.raised) != exp:
                    bad.append((i, exc, inc, r.raised))
    run.table('C08.R3:leaf', 18, 'leaf _require_all_new over allow_new x exceptions x include_self')
    if bad:
        run.violation('C08.R3', leaf, 'leaf _require_all_new', 'allow_new=%r exceptions=%r include_self=%r -> raised %r' % bad[0], witness=bad)
    else:
        run.ok('C08.R3', leaf, 'leaf _require_all_new raises iff not allow_new, included and not excepted (18 rows)')
    comp = repo.func('ComposedNode.ayns._require_all_new')
    # evaluated with the walk replaced by a two-element sequence: semantics of the loop, whatever its shape
    probs = []
    rows = 0
    for i1 in F3:
        for i2 in F3:
            for exc in (None, ['p/a'], ['p/b'], ['p/a', 'p/b'], ['q']):
                for inc in (True, False):
                    n1, n2 = node_obj('n1', _implicit_allow_new=i1), node_obj('n2', _implicit_allow_new=i2)
                    me = node_obj('me', 'ComposedNode')
                    walks = []

                    def stub(name, recv, args, kwargs, walks=walks, n1=n1, n2=n2):
                        walks.append((recv, list(args), dict(kwargs)))
                        return [('p/a', n1), ('p/b', n2)]
                    f = FDE(repo, stubs={'nodes_with_paths'}, stub=stub)
                    r = fde_guard(lambda: f.call(comp, me, 'p', 'reason', exceptions=exc, include_self=inc))
                    rows += 1
                    exp = any(i is False and (exc is None or pth not in exc) for i, pth in ((i1, 'p/a'), (i2, 'p/b')))
                    if bool(r.raised) != exp and len(probs) < 4:
                        probs.append('nodes allow_new=(%r, %r) exceptions=%r -> raised=%r (expected %r)' % (i1, i2, exc, r.raised, exp))
                    if not walks:
                        if exp and 'returns without walking the subtree although a descendant forbids new paths' not in probs:
                            probs.append('returns without walking the subtree although a descendant forbids new paths')
                        continue
                    if len(walks) != 1 or walks[0][0] is not me:
                        raise AnalysisError('ComposedNode._require_all_new: walk not recognised')
                    _, wa, wk = walks[0]
                    prefix = wk.get('prefix', wa[0] if wa else None)
                    if prefix != 'p' and 'walk is not prefixed with the path argument' not in probs:
                        probs.append('walk is not prefixed with the path argument')
                    if wk.get('include_self', False) is not inc and 'include_self is not passed to the walk' not in probs:
                        probs.append('include_self is not passed to the walk')
                    if wk.get('recursive', True) is not True and 'walk is not recursive' not in probs:
                        probs.append('walk is not recursive')
    run.table('C08.R3:container', rows, 'container _require_all_new over two visited nodes x exceptions x include_self')
    if probs:
        run.violation('C08.R3', comp, 'container _require_all_new', '; '.join(probs))
    else:
        run.ok('C08.R3', comp, 'container _require_all_new: walks nodes_with_paths(prefix=path, include_self=include_self), raises iff a visited node is not allowed and not excepted (%d rows)' % rows)
    # no other class overrides it
    for fi in repo.cha('_require_all_new', ayns=True):
        if fi not in (leaf, comp):
            run.violation('C08.R3', fi, 'override of _require_all_new', 'new-path check overridden in %s' % fi.cls.name)


def r4(repo, run):
    table = check_flag_tags(repo, run, 'C08.R4', tags={'!new', '!notnew'})
    pc = repo.func('Config.process_cmdline')
    a = pc.node.args
    names = [x.arg for x in a.args]
    if 'default_inline_tag' not in names:
        raise AnalysisError('process_cmdline has no default_inline_tag parameter')
    d = a.defaults[names.index('default_inline_tag') - (len(names) - len(a.defaults))]
    tag = d.value if isinstance(d, ast.Constant) else None
    e = table.get(tag)
    if e is None or e.kwargs != {'allow_new': False}:
        run.violation('C08.R4', pc, 'default_inline_tag=%r' % tag, 'command-line overrides are not wrapped in a tag that forbids new paths')
    else:
        run.ok('C08.R4', pc, 'default_inline_tag=%r -> allow_new=False' % tag)
    # the tag is actually emitted for inline options
    src = unparse(pc.node)
    if "default_inline_tag + ' { '" not in src:
        raise AnalysisError('process_cmdline: emission of the default tag not recognised')
    bc = repo.func('Config.build_from_cmdline')
    calls = [c for c in calls_in(bc.node) if is_method_call(c, member='process_cmdline', ayns=False)]
    if len(calls) != 1:
        raise AnalysisError('build_from_cmdline does not call process_cmdline once')
    if get_kw(calls[0], 'default_inline_tag') is not None or len(calls[0].args) > 2:
        run.violation('C08.R4', bc, unparse(calls[0]), 'build_from_cmdline overrides the default inline tag', node=calls[0])
    else:
        run.ok('C08.R4', bc, unparse(calls[0])[:100], 'default tag left in place')


def r5(repo, run):
    """list indices of an override path `a[i][j]` are read right-to-left and must be restored to written order"""
    pc = repo.func('Config.process_cmdline')
    loops = []
    for f in [pc] + list(pc.nested().values()) + [g for n in pc.nested().values() for g in n.nested().values()]:
        for w in walk_no_nested(f.node):
            if isinstance(w, ast.While) and "endswith(']')" in norm(w.test):
                loops.append((f, w))
    if len(loops) != 1:
        raise AnalysisError('process_cmdline: index-parsing loop not recognised (%d)' % len(loops))
    f, w = loops[0]
    src = norm(w)
    from_right = 'rfind(' in src or 'rpartition(' in src or 'rsplit(' in src or 'rindex(' in src
    adds = [c for c in calls_in(w) if isinstance(c.func, ast.Attribute) and c.func.attr in ('insert', 'append', 'appendleft')]
    if not adds:
        raise AnalysisError('process_cmdline: collection of indices not recognised')
    a = adds[0]
    coll = norm(a.func.value)
    prepends = (a.func.attr == 'insert' and norm(a.args[0]) == '0') or a.func.attr == 'appendleft'
    whole = norm(f.node)
    reversed_later = ('reversed(%s)' % coll) in whole or ('%s[::-1]' % coll) in whole or ('%s.reverse()' % coll) in whole
    if from_right and not prepends and not reversed_later:
        run.violation('C08.R5', f, norm(a), 'bracket groups are taken from the right end of the path component and appended: consecutive indices come out innermost-first, so `grid[0][2]=9` addresses grid[2][0] (another existing path is changed / a mistyped path is accepted)', node=a)
    elif (not from_right) and prepends and not reversed_later:
        run.violation('C08.R5', f, norm(a), 'bracket groups are taken from the left and prepended: consecutive indices are reversed', node=a)
    else:
        run.ok('C08.R5', (f.file, a.lineno, f.qualname), norm(a), 'indices restored to written order (%s, %s)' % ('read from the right' if from_right else 'read from the left', 'prepended' if prepends else ('reversed afterwards' if reversed_later else 'appended')))
    emit = [l for l in ast.walk(pc.node) if isinstance(l, ast.For) and norm(l.iter) in (coll, 'indices')]
    if not emit:
        raise AnalysisError('process_cmdline: emission of nested index mappings not recognised')
    run.ok('C08.R5', (pc.file, emit[0].lineno, pc.qualname), norm(emit[0])[:80], 'one nested mapping per index, in order')


def check(repo, run, tier):
    g = Guard()
    g(mr.key_loop_paths, repo, run, 'C08.R1k', rule_new='C08.R1')
    g(r1_replacement, repo, run)
    run.floor('C08.R1', 4)
    g(r2, repo, run)
    g(r3, repo, run)
    g(mr.propagation_table, repo, run, 'C08.R3', 'allow_new')
    g(r4, repo, run)
    g(r5, repo, run)
    g.done()


def mutants(repo):
    return [
        Mutant('new-key-check-dropped', lambda r: delete_stmt(r, 'ComposedNode.ayns.on_merge_impl', lambda t: t.startswith('value.ayns._require_all_new')), ['C08.R1']),
        Mutant('leaf-replacement-check-dropped', lambda r: delete_stmt(r, 'ComposedNode.ayns.on_merge_impl', lambda t: t.startswith('possibly_new_child.ayns._require_all_new')), ['C08.R1']),
        Mutant('replacement-check-dropped', lambda r: delete_stmt(r, 'ComposedNode.ayns.on_merge_impl', lambda t: t.startswith('other.ayns._require_all_new')), ['C08.R1']),
        Mutant('first-stage-check-dropped', lambda r: in_func(r, 'Builder.flatten', "self.stages[0].ayns._require_all_new([], ", "self.stages[0].ayns.get_child(None, "), ['C08.R2']),
        Mutant('merge-none-ignores-flag', lambda r: in_func(r, 'ConfigNode.ayns.merge', "if not self.ayns.allow_new:", "if False:"), ['C08.R2']),
        Mutant('require-all-new-fast-path', lambda r: in_func(r, 'ComposedNode.ayns._require_all_new',
               "            seq = self.ayns.nodes_with_paths", "            if self._allow_new is None and self.ayns.allow_new:\n                return\n            seq = self.ayns.nodes_with_paths"), ['C08.R3']),
        Mutant('require-all-new-not-prefixed', lambda r: in_func(r, 'ComposedNode.ayns._require_all_new', "nodes_with_paths(prefix=path, include_self=include_self)", "nodes_with_paths(include_self=include_self)"), ['C08.R3']),
        Mutant('child-allow-new-ignores-explicit', lambda r: in_func(r, 'ComposedNode._get_child_kwargs', "notnone_or(self._allow_new, self._implicit_allow_new)", "notnone_or(self._implicit_allow_new, self._allow_new)"), ['C08.R3']),
        Mutant('allow-new-default-false', lambda r: in_func(r, 'ConfigNode.ayns._require_all_new', "if not self.ayns.allow_new and (exceptions is None or path not in exceptions):", "if not self.ayns.allow_new and exceptions is None:"), ['C08.R3']),
        Mutant('cmdline-default-tag-new', lambda r: in_func(r, 'Config.process_cmdline', "default_inline_tag='!notnew'", "default_inline_tag='!new'"), ['C08.R4']),
        Mutant('cmdline-indices-reversed', lambda r: in_func(r, 'Config.process_cmdline', "indices.insert(0, index)", "indices.append(index)"), ['C08.R5']),
        Mutant('notnew-tag-allows', lambda r: in_func(r, 'yaml._notnew_constructor', "'allow_new': False", "'allow_new': True"), ['C08.R4']),
        Mutant('neutral-reason-text', lambda r: in_func(r, 'Builder.flatten', "'the node comes from the first config tree", "'this node comes from the first config tree"), neutral=True),
    ]
