"""C08 - !notnew (and command-line overrides) can change but never create paths."""
import ast

from ..fde import FDE
from ..mutate import Mutant, in_func, delete_stmt
from ..report import AnalysisError
from ..srcmodel import unparse, norm, walk_no_nested, calls_in, fold_const
from .common import (is_method_call, recv_of, get_kw, node_obj, F3, fde_guard, cfg_of, facts_at, find_stmt_node)
from . import mergerules as mr
from . import unitrules
from .common import thorough
from . import mergetrace as mt
from .tagtable import check_flag_tags, constructors

from .common import Guard  # noqa: E402

PROP = 'C08'
DECIDED = [
    'R1: in the container merge every attachment of newer content is preceded by the new-path check (on the value for a new key, below a replaced leaf; recursion covers merged containers); the wholesale-replacement return is preceded by other._require_all_new(path, exceptions=removed).',
    'R2: Builder.flatten checks the first stage with _require_all_new([]) before folding; merge(None) raises when allow_new is false.',
    'R3: flag semantics tables: implicit_allow_new of a child = explicit else inherited; ayns.allow_new = inherited else True; both _require_all_new implementations raise exactly when allow_new is false and the path is not excepted; the container one walks nodes_with_paths(prefix=path, include_self=...).',
    'R5: process_cmdline restores consecutive list indices (read right-to-left) to their written order.',
    'R4: process_cmdline defaults to a tag whose constructor sets allow_new=False and build_from_cmdline does not override it; !new/!notnew constructors set exactly allow_new.',
    'R6: ComposedNode.ayns._require_all_new evaluated on 36 rows (own / child allow_new x include_self default / True / False x exceptions): the node itself is checked by default; any checked node that forbids new paths raises unless excepted.',
    'R7: errors can be built (see C09.R5): the MergeError a forbidden new path is reported with does not fail while it is constructed.',
]
UNDECIDED = ['the a.b[i].c=value text grammar;', '"nothing else changes" as data.']


def r1_replacement(repo, run):
    mt.wholesale_check(repo, run, 'C08.R1')


def r2(repo, run):
    mt.first_stage_check(repo, run, 'C08.R2')
    mg = repo.func('ConfigNode.ayns.merge')
    res = {}
    for an in (None, True, False):
        o = node_obj('n', _implicit_allow_new=an)
        f = FDE(repo)
        r = fde_guard(lambda: f.call(mg, o, None))
        res[an] = r.raised
    if res[False] is None or res[True] is not None or res[None] is not None:
        run.violation('C08.R2', mg, 'merge(None)', 'merging onto nothing: allow_new None/True/False -> %s' % res)
    else:
        run.ok('C08.R2', mg, 'merge(None) raises iff allow_new is false')


def r3(repo, run):
    gk = repo.func('ComposedNode._get_child_kwargs')
    bad = []
    for a in F3:
        for i in F3:
            p = node_obj('p', 'ComposedNode', _allow_new=a, _implicit_allow_new=i)
            f = FDE(repo)
            r = fde_guard(lambda: f.call(gk, p))
            exp = a if a is not None else i
            if r.ret.get('implicit_allow_new') is not exp:
                bad.append((a, i, r.ret.get('implicit_allow_new'), exp))
    if bad:
        run.violation('C08.R3', gk, '_get_child_kwargs implicit_allow_new', 'explicit=%r inherited=%r hands %r to children (expected %r)' % bad[0], witness=bad)
    else:
        run.ok('C08.R3', gk, 'child implicit_allow_new = explicit else inherited (9 rows)', 'a nested !new re-allows, a nested !notnew forbids')
    getter = repo.func('ConfigNode.ayns.allow_new')
    bad = []
    for i in F3:
        for a in F3:
            o = node_obj('n', _allow_new=a, _implicit_allow_new=i)
            f = FDE(repo)
            v = fde_guard(lambda: f.getter(o, 'allow_new'))
            exp = i if i is not None else True
            if v is not exp:
                bad.append((a, i, v, exp))
    if bad:
        run.violation('C08.R3', getter, 'ayns.allow_new table', 'explicit=%r inherited=%r gives %r (expected %r)' % bad[0], witness=bad)
    else:
        run.ok('C08.R3', getter, 'ayns.allow_new = inherited else True (9 rows)')
    # leaf _require_all_new
    leaf = repo.func('ConfigNode.ayns._require_all_new')
    bad = []
    for i in F3:
        for exc in (None, ['p'], ['q']):
            for inc in (True, False):
                o = node_obj('n', _implicit_allow_new=i)
                f = FDE(repo)
                r = fde_guard(lambda: f.call(leaf, o, 'p', 'reason', exceptions=exc, include_self=inc))
                exp = (i is False) and inc and (exc is None or 'p' not in exc)
                if bool(r.raised) != exp:
                    bad.append((i, exc, inc, r.raised))
    run.table('C08.R3:leaf', 18, 'leaf _require_all_new over allow_new x exceptions x include_self')
    if bad:
        run.violation('C08.R3', leaf, 'leaf _require_all_new', 'allow_new=%r exceptions=%r include_self=%r -> raised %r' % bad[0], witness=bad)
    else:
        run.ok('C08.R3', leaf, 'leaf _require_all_new raises iff not allow_new, included and not excepted (18 rows)')
    comp = repo.func('ComposedNode.ayns._require_all_new')
    # evaluated with the walk replaced by a two-element sequence: semantics of the loop, whatever its shape
    probs = []
    rows = 0
    for i1 in F3:
        for i2 in F3:
            for exc in (None, ['p/a'], ['p/b'], ['p/a', 'p/b'], ['q']):
                for inc in (True, False):
                    n1, n2 = node_obj('n1', _implicit_allow_new=i1), node_obj('n2', _implicit_allow_new=i2)
                    me = node_obj('me', 'ComposedNode')
                    walks = []

                    def stub(name, recv, args, kwargs, walks=walks, n1=n1, n2=n2):
                        walks.append((recv, list(args), dict(kwargs)))
                        return [('p/a', n1), ('p/b', n2)]
                    f = FDE(repo, stubs={'nodes_with_paths'}, stub=stub)
                    r = fde_guard(lambda: f.call(comp, me, 'p', 'reason', exceptions=exc, include_self=inc))
                    rows += 1
                    exp = any(i is False and (exc is None or pth not in exc) for i, pth in ((i1, 'p/a'), (i2, 'p/b')))
                    if bool(r.raised) != exp and len(probs) < 4:
                        probs.append('nodes allow_new=(%r, %r) exceptions=%r -> raised=%r (expected %r)' % (i1, i2, exc, r.raised, exp))
                    if not walks:
                        if exp and 'returns without walking the subtree although a descendant forbids new paths' not in probs:
                            probs.append('returns without walking the subtree although a descendant forbids new paths')
                        continue
                    if len(walks) != 1 or walks[0][0] is not me:
                        raise AnalysisError('ComposedNode._require_all_new: walk not recognised')
                    _, wa, wk = walks[0]
                    prefix = wk.get('prefix', wa[0] if wa else None)
                    if prefix != 'p' and 'walk is not prefixed with the path argument' not in probs:
                        probs.append('walk is not prefixed with the path argument')
                    if wk.get('include_self', False) is not inc and 'include_self is not passed to the walk' not in probs:
                        probs.append('include_self is not passed to the walk')
                    if wk.get('recursive', True) is not True and 'walk is not recursive' not in probs:
                        probs.append('walk is not recursive')
    run.table('C08.R3:container', rows, 'container _require_all_new over two visited nodes x exceptions x include_self')
    if probs:
        run.violation('C08.R3', comp, 'container _require_all_new', '; '.join(probs))
    else:
        run.ok('C08.R3', comp, 'container _require_all_new: walks nodes_with_paths(prefix=path, include_self=include_self), raises iff a visited node is not allowed and not excepted (%d rows)' % rows)
    # no other class overrides it
    for fi in repo.cha('_require_all_new', ayns=True):
        if fi not in (leaf, comp):
            run.violation('C08.R3', fi, 'override of _require_all_new', 'new-path check overridden in %s' % fi.cls.name)


CMD_CASES = [
    ('a.b=1', ['a', 'b'], '1'),
    ('grid[0][2]=9', ['grid', '0', '2'], '9'),
    (' lst[1] = [1, 2] ', ['lst', '1'], None),
    ('x.y[3].z[0][1]=v', ['x', 'y', '3', 'z', '0', '1'], 'v'),
    ('top=5', ['top'], '5'),
    ('a.b={x: 1}', ['a', 'b', 'x'], '1'),
    ('m . lr = 0.5', ['m', 'lr'], '0.5'),             # blanks around the components of the key are allowed (and stripped)        # an override whose value is a flow mapping is still an override (not raw yaml)
]


def _cmdline(repo, args, **kw):
    pc = repo.func('Config.process_cmdline')
    f = FDE(repo)
    # (whatever the option text is, a file of that name may exist in the working directory: what an override means does not depend on it)
    from .common import fs_extcalls
    f.extcalls = fs_extcalls(isfile=lambda p_: True)
    r = fde_guard(lambda: f.call(pc, ('class', 'Config'), list(args), **kw))
    if r.raised or not isinstance(r.ret, (tuple, list)) or len(r.ret) != 3:
        raise AnalysisError('process_cmdline: not evaluable on %s (%s)' % (args, r.raised))
    return r.ret


def _key_chain(text):
    """(root tag, chain of single keys, text of the innermost value) of a flow-mapping document, read with PyYAML's composer
    (no constructors involved; PyYAML is the trusted reader of the text the evaluated function produced)"""
    import yaml as _yaml
    try:
        node = _yaml.compose(text, Loader=_yaml.SafeLoader)
    except Exception as e:  # noqa
        return None, None, 'unparsable: %s' % str(e).split('\n')[0][:60]
    tag = node.tag
    chain = []
    while isinstance(node, _yaml.MappingNode) and len(node.value) == 1:
        k, v = node.value[0]
        chain.append(k.value if isinstance(k, _yaml.ScalarNode) else '<complex key>')
        node = v
    return tag, chain, (node.value if isinstance(node, _yaml.ScalarNode) else None)


def r4(repo, run):
    table = check_flag_tags(repo, run, 'C08.R4', tags={'!new', '!notnew'})
    pc = repo.func('Config.process_cmdline')
    a = pc.node.args
    names = [x.arg for x in a.args]
    if 'default_inline_tag' not in names:
        raise AnalysisError('process_cmdline has no default_inline_tag parameter')
    d = a.defaults[names.index('default_inline_tag') - (len(names) - len(a.defaults))]
    tag = d.value if isinstance(d, ast.Constant) else None
    e = table.get(tag)
    if e is None or e.kwargs != {'allow_new': False}:
        run.violation('C08.R4', pc, 'default_inline_tag=%r' % tag, 'command-line overrides are not wrapped in a tag that forbids new paths')
    else:
        run.ok('C08.R4', pc, 'default_inline_tag=%r -> allow_new=False' % tag)
    # the tag is actually emitted for inline options (evaluated)
    yamls, filenames, raws = _cmdline(repo, [c[0] for c in CMD_CASES] + ['!force p.q=1', 'conf/file.yaml', '{a: 1}', 'a: 1\nb: 2', ' {k=v} '])
    bad = []
    for (opt, _, _), text in zip(CMD_CASES, yamls):
        rt, chain, _ = _key_chain(text)
        if rt != tag:
            bad.append('the option %r becomes %r: the document is not tagged %s' % (opt, text[:60], tag))
    if yamls[len(CMD_CASES) + 1] != 'conf/file.yaml' or raws[len(CMD_CASES) + 1] is not False or yamls[len(CMD_CASES) + 2] != '{a: 1}':
        bad.append('file names / raw yaml arguments are not passed through unchanged')
    if yamls[len(CMD_CASES) + 3] != 'a: 1\nb: 2' or raws[len(CMD_CASES) + 3] is not True or yamls[len(CMD_CASES) + 4] != ' {k=v} ' or raws[len(CMD_CASES) + 4] is not True:
        bad.append('a multi-line argument / an argument in braces is not taken as raw yaml (got %r raw=%r; %r raw=%r)' % (yamls[len(CMD_CASES) + 3][:20], raws[len(CMD_CASES) + 3], yamls[len(CMD_CASES) + 4][:20], raws[len(CMD_CASES) + 4]))
    if bad:
        run.violation('C08.R4', pc, 'emission of the default tag', '; '.join(bad[:2]))
    else:
        run.ok('C08.R4', pc, 'inline options are wrapped as %s { ... } (%d options evaluated)' % (tag, len(CMD_CASES)), 'files and raw yaml untouched')
    bc = repo.func('Config.build_from_cmdline')
    from . import tr
    calls = [e_ for p in tr.paths_of(repo, bc, no_inline={'process_cmdline', 'build'}, follow_exceptions=False) for e_ in p.events if e_.kind == 'call' and e_.attr == 'process_cmdline']
    if not calls:
        raise AnalysisError('build_from_cmdline does not call process_cmdline')
    if any('default_inline_tag' in c.kw or len(c.args) > 2 for c in calls):
        run.violation('C08.R4', bc, calls[0].callee, 'build_from_cmdline overrides the default inline tag')
    else:
        run.ok('C08.R4', bc, calls[0].callee, 'default tag left in place')


def r5(repo, run):
    """an override `a.b[i][j]=v` addresses the path a -> b -> i -> j in the order written: process_cmdline evaluated on concrete
    options, the produced text read back with PyYAML's composer"""
    pc = repo.func('Config.process_cmdline')
    cases = list(CMD_CASES)
    if thorough():
        # every override path of up to 3 dotted components, each with 0..3 list indices out of {0, 1, 2}
        import itertools
        comps = []
        for nm in ('a', 'b'):
            for k in range(0, 4):
                for idx in itertools.product((0, 1, 2), repeat=k):
                    comps.append((nm + ''.join('[%d]' % i for i in idx), [nm] + [str(i) for i in idx]))
        for n in (1, 2, 3):
            for combo in itertools.product(comps[::3] if n == 3 else comps, repeat=n):
                if len(cases) >= 2500:
                    break
                cases.append(('.'.join(c[0] for c in combo) + '=7', [x for c in combo for x in c[1]], '7'))
    yamls, filenames, raws = _cmdline(repo, [c[0] for c in cases])
    bad = []
    for (opt, want, val), text, raw in zip(cases, yamls, raws):
        rt, chain, leaf = _key_chain(text)
        if chain is None:
            bad.append('the option %r produces text that does not parse (%s)' % (opt, leaf))
        elif chain != want:
            why = 'consecutive indices come out in another order, so `grid[0][2]=9` addresses grid[2][0] (another existing path is changed / a mistyped path is accepted)' if sorted(chain) == sorted(want) else 'the addressed path differs'
            bad.append('the option %r addresses %s instead of %s: %s' % (opt, ' -> '.join(chain), ' -> '.join(want), why))
        elif val is not None and leaf != val:
            bad.append('the option %r assigns %r instead of %r' % (opt, leaf, val))
        elif raw is not True:
            bad.append('the option %r is not marked as raw yaml' % opt)
    run.table('C08.R5', len(cases), 'command-line options -> addressed key chain')
    if bad:
        run.violation('C08.R5', pc, 'override path of an inline option', '; '.join(bad[:2]))
    else:
        run.ok('C08.R5', pc, 'override paths (%d options)' % len(cases), 'components and indices in written order, one nested mapping per component')


def check(repo, run, tier):
    g = Guard()
    g(mr.key_loop_paths, repo, run, 'C08.R1k', rule_new='C08.R1')
    g(r1_replacement, repo, run)
    run.floor('C08.R1', 4)
    g(r2, repo, run)
    g(r3, repo, run)
    g(mr.propagation_table, repo, run, 'C08.R3', 'allow_new')
    g(r4, repo, run)
    g(r5, repo, run)
    g(unitrules.require_all_new_table, repo, run, 'C08.R6')
    g(unitrules.require_all_new_shared_nodes, repo, run, 'C08.R6')
    g(unitrules.removed_root_excepted, repo, run, 'C08.R1')
    g(unitrules.errors_constructible, repo, run, 'C08.R7')
    g(unitrules.error_wrapping, repo, run, 'C08.R7')
    g(unitrules.propagate_implicit_table, repo, run, 'C08.R3', ('allow_new',))
    g.done()


def _two(r):
    ov = in_func(r, 'ComposedNode.ayns.on_merge_impl', "        def on_merge_impl(self, path, other):", "        def on_merge_impl(self, path, other, _removed=set()):")
    r2 = r.with_overrides(ov)
    return in_func(r2, 'ComposedNode.ayns.on_merge_impl', "                removed = set()\n", "                removed = _removed\n")


def mutants(repo):
    return [
        Mutant('explicit-notnew-overwritten-by-inherited-value', lambda r: in_func(r, 'ComposedNode._propagate_implicit_values', "            if self._allow_new is None:", "            if not self._allow_new:"), ['C08.R3']),
        Mutant('removed-paths-in-a-default-argument', lambda r: _two(r), ['C08.R1']),
        Mutant('non-node-operand-as-second-node', lambda r: in_func(r, 'node.decorator_factory', "if not isinstance(other, ConfigNode):", "if isinstance(other, ConfigNode):"), ['C08.R7']),
        Mutant('api-entry-touches-missing-context', lambda r: in_func(r, 'errors.api_entry', "if orig_exp is not None:", "if orig_exp is None:"), ['C08.R7']),
        Mutant('removed-root-not-excepted', lambda r: in_func(r, 'ComposedNode.ayns.on_merge_impl', "                    removed.add(path)\n", ""), ['C08.R1']),
        Mutant('require-all-new-skips-self-by-default', lambda r: in_func(r, 'ComposedNode.ayns._require_all_new', "exceptions=None, include_self=True):", "exceptions=None, include_self=False):"), ['C08.R6']),
        Mutant('new-key-check-dropped', lambda r: delete_stmt(r, 'ComposedNode.ayns.on_merge_impl', lambda t: t.startswith('value.ayns._require_all_new')), ['C08.R1']),
        Mutant('leaf-replacement-check-dropped', lambda r: delete_stmt(r, 'ComposedNode.ayns.on_merge_impl', lambda t: t.startswith('possibly_new_child.ayns._require_all_new')), ['C08.R1']),
        Mutant('replacement-check-dropped', lambda r: delete_stmt(r, 'ComposedNode.ayns.on_merge_impl', lambda t: t.startswith('other.ayns._require_all_new')), ['C08.R1']),
        Mutant('first-stage-check-dropped', lambda r: in_func(r, 'Builder.flatten', "self.stages[0].ayns._require_all_new([], ", "self.stages[0].ayns.get_child(None, "), ['C08.R2']),
        Mutant('merge-none-ignores-flag', lambda r: in_func(r, 'ConfigNode.ayns.merge', "if not self.ayns.allow_new:", "if False:"), ['C08.R2']),
        Mutant('require-all-new-fast-path', lambda r: in_func(r, 'ComposedNode.ayns._require_all_new',
               "            seq = self.ayns.nodes_with_paths", "            if self._allow_new is None and self.ayns.allow_new:\n                return\n            seq = self.ayns.nodes_with_paths"), ['C08.R3']),
        Mutant('require-all-new-not-prefixed', lambda r: in_func(r, 'ComposedNode.ayns._require_all_new', "nodes_with_paths(prefix=path, include_self=include_self)", "nodes_with_paths(include_self=include_self)"), ['C08.R3']),
        Mutant('child-allow-new-ignores-explicit', lambda r: in_func(r, 'ComposedNode._get_child_kwargs', "notnone_or(self._allow_new, self._implicit_allow_new)", "notnone_or(self._implicit_allow_new, self._allow_new)"), ['C08.R3']),
        Mutant('allow-new-default-false', lambda r: in_func(r, 'ConfigNode.ayns._require_all_new', "if not self.ayns.allow_new and (exceptions is None or path not in exceptions):", "if not self.ayns.allow_new and exceptions is None:"), ['C08.R3']),
        Mutant('cmdline-default-tag-new', lambda r: in_func(r, 'Config.process_cmdline', "default_inline_tag='!notnew'", "default_inline_tag='!new'"), ['C08.R4']),
        Mutant('cmdline-indices-reversed', lambda r: in_func(r, 'Config.process_cmdline', "indices.insert(0, index)", "indices.append(index)"), ['C08.R5']),
        Mutant('notnew-tag-allows', lambda r: in_func(r, 'yaml._notnew_constructor', "'allow_new': False", "'allow_new': True"), ['C08.R4']),
        Mutant('neutral-reason-text', lambda r: in_func(r, 'Builder.flatten', "'the node comes from the first config tree", "'this node comes from the first config tree"), neutral=True),
    ]
