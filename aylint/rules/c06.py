"""C06 - streams are flattened in order: sources, multi-doc files and !include agree."""
import ast

from .. import cfg as cfgmod
from ..fde import FDE, Obj, Opaque, Raised, Unsupported
from ..mutate import Mutant, in_func, delete_stmt, in_module
from ..report import AnalysisError
from ..srcmodel import unparse, norm, walk_no_nested, calls_in, fold_const
from .common import is_method_call, cfg_of, get_kw, recv_of, name_defs, node_obj, fde_guard, facts_at, find_stmt_node, parent_chain, F3
from . import c07
from . import buildrules
from . import unitrules
from . import tr
from .c10 import _as

from .common import Guard, only_reached_from  # noqa: E402

PROP = 'C06'
DECIDED = [
    'R1: Builder.preprocess splices the stages of an included stream in place, in order (slice assignment of the plain .stages attribute, cursor advanced by its length).',
    'R2: lookup order and first match: get_lookup_dirs yields the directory of the reference file (when there is one) before the cwd; !include loads its files in the order written (outer loop over names, inner over lookup dirs) and leaves the inner loop after the first successful add_source.',
    'R3: a file found nowhere is appended to `missing`; the sub-build is reachable only when `missing` is empty, otherwise an error carrying `missing` is raised.',
    'R4: the stream carrier is flag-neutral: StreamNode passes no merge-control argument to its base constructor and _get_child_kwargs of a carrier yields no inherited flag (all three None).',
    'R5: include safety and parse context (C07.R6): sources are parsed inside default_safe_flag / with safe= derived from the including node.',
    'R6: !path file/parent reference points use the node\'s own recorded source file and raise when it is missing; parent(n) beyond the recorded name\'s parents is handled by ".." padding or by absolutising the file name.',
    'R7: StreamNode premerge flattens its builder before taking stages[0] and returns that document\'s own premerge result.',
    'R8: every document added by add_source is a fresh parse result of that call (or a deep copy): stage nodes are never shared between include sites.',
    'R9: the builder pipeline evaluated on tables of stage answers (finite-domain evaluator): preprocess asks every original stage once, in order, splices streams in place and replaces changed nodes; flatten adopts the pre-merge result of the first stage, checks its new paths, folds left and rejects non-mapping stages; build = None when empty, else preprocess all, flatten, the remaining stage.',
    "R10: Builder.get_subbuilder hands out a sub-builder only while a stage is preprocessed (RuntimeError otherwise); SubBuilder records requester, parent and the parent's current stage.",
]
UNDECIDED = ['equality of the four ways of splitting a document sequence as data;', 'file-system semantics of normpath/join;', 'abs(...) reference point arithmetic.']
FLAGS = ('delete', 'allow_new', 'safe', 'priority')


def r1(repo, run):
    """Builder.preprocess on traces (loop-carried cursor marked): the stage under the cursor is replaced by exactly the stages of
    the stream it preprocessed to, in their order, and the cursor moves past all of them"""
    import re
    fi = repo.func('Builder.preprocess')
    paths = tr.paths_of(repo, fi, no_inline={'preprocess', 'current_stage'}, follow_exceptions=False, mark_carried=True)
    n = 0
    verdicts = set()

    def num(text, extra=None):
        """integer value of an index expression with the loop-carried cursor set to 0 (None when it is not arithmetic on the cursor)"""
        sub = {'carried(0)': 0}
        sub.update(extra or {})
        try:
            import ast as _ast
            return tr._ev_const(_ast.parse(text, mode='eval').body, sub)
        except (tr._Unknown, SyntaxError):
            return None
    for p in paths:
        for e in p.events:
            m = re.match(r'^self\.stages\[(.+?):(.+)\]$', e.target) if e.kind == 'store' else None
            if not m:
                continue
            n += 1
            lo, up = m.group(1), m.group(2)
            probs = []
            lo_v, up_v = num(lo), num(up)
            if lo_v is None or up_v is None:
                raise AnalysisError('Builder.preprocess: slice bounds %s:%s of the splice are not arithmetic on the cursor' % (lo[:30], up[:30]))
            pre = [c for c in p.events[:tr.index_of(p, e)] if c.kind == 'call' and c.attr == 'preprocess' and c.recv is not None and c.recv.text.startswith('self.stages[') and c.recv.text.endswith('].ayns')]
            if not pre:
                raise AnalysisError('Builder.preprocess: the stage under the cursor is not preprocessed before the splice')
            st_v = num(pre[-1].recv.text[len('self.stages['):-len('].ayns')])
            NS = pre[-1].result.text
            if st_v is None:
                raise AnalysisError('Builder.preprocess: index of the preprocessed stage is not arithmetic on the cursor')
            if lo_v != st_v or up_v != lo_v + 1:
                probs.append('replaced slice is [%d:%d] relative to the cursor while the preprocessed stage is at %d: not exactly the stage being preprocessed' % (lo_v, up_v, st_v))
            v = e.value.text if e.value is not None else ''
            if v != NS + '.stages' and not (e.value is not None and e.value.text in [x.value.text for x in p.events if x.kind == 'store'] and False):
                alias = [x for x in p.events if x.kind == 'call' and x.callee == 'getattr' and len(x.args) >= 2 and x.args[0].text == NS and x.args[1].const == 'stages' and x.result is not None and x.result.text == v]
                if not alias:
                    probs.append('spliced sequence is %s (reversed / sorted / sliced copies change the document order)' % v[:60])
            if p.status == 'return':
                LEN = 3
                finals = {num(val.text, {'len(%s)' % v: LEN, 'len(%s.stages)' % NS: LEN}) for val in p.env.values()}
                if (st_v + LEN) not in finals:
                    probs.append('the cursor does not move past exactly the spliced stages (after splicing %d stages at offset %d the loop-carried values are %s, none is %d): the document after an included stream is skipped / preprocessed twice' % (LEN, st_v, sorted(x for x in finals if isinstance(x, int)), st_v + LEN))
            verdicts.add(('bad', '; '.join(probs)) if probs else ('ok', 'self.stages[i:i+1] = <preprocessed>.stages ; i += len(<preprocessed>.stages)'))
    if not n:
        raise AnalysisError('Builder.preprocess: splice `self.stages[i:i+1] = ...` not recognised')
    for v in sorted(verdicts):
        if v[0] == 'ok':
            run.ok('C06.R1', fi, v[1], 'in place, in order')
        else:
            run.violation('C06.R1', fi, 'splice of an included stream', v[1])
    fl = repo.func('Builder.flatten')
    for p in tr.paths_of(repo, fl, no_inline={'merge', '_require_all_new', 'premerge'}, follow_exceptions=True, mark_carried=True):
        for e in p.events:
            if e.kind == 'store' and e.target == 'self.stages[0:1]' and e.value is not None and not e.value.text.endswith('.stages'):
                run.violation('C06.R1', tr.where(fl, e), e.target + ' = ' + e.value.text[:60], 'first-stage stream is not spliced in order')
                return


def r2(repo, run):
    """the lookup directories, evaluated: Builder.get_lookup_dirs(<file>) gives the directory of that file, then the working directory;
    without a reference file the working directory only; a sub-builder answers with its parent's directories for the same file"""
    g = repo.func('Builder.get_lookup_dirs')
    bad = []
    for ref, want in (('proj/conf/main.yaml', ['proj/conf', 'CWD']), ('main.yaml', ['', 'CWD']), ('/abs/x.yaml', ['/abs', 'CWD']), (None, ['CWD'])):
        f = FDE(repo)
        f.generators = True
        f.extcalls = {'os.getcwd': lambda: 'CWD'}
        r = fde_guard(lambda: f.call(g, Obj('builder', 'Builder'), ref))
        got = list(r.ret) if isinstance(r.ret, (list, tuple)) or type(r.ret).__name__ == 'generator' else r.ret
        if r.raised or got != want:
            bad.append('get_lookup_dirs(%r) gives %s, expected %s' % (ref, 'an exception: ' + str(r.raised) if r.raised else got, want))
    if bad:
        run.violation('C06.R2', g, 'lookup directories', '; '.join(bad[:2]) + ': lookup directories are not [directory of the including file (if any), then the working directory]')
    else:
        run.ok('C06.R2', g, 'lookup directories: directory of the reference file (if any), then the working directory (4 rows)')
    sb = repo.func('SubBuilder.get_lookup_dirs')
    asked = []

    def stub(n, recv, a, k):
        asked.append((getattr(recv, 'name', recv), tuple(a), dict(k)))
        return 'PARENT-DIRS'
    f = FDE(repo, stubs={'get_lookup_dirs'}, stub=stub)
    parent = Obj('parent', 'Builder')
    r = fde_guard(lambda: f.call(sb, Obj('sub', 'SubBuilder', parent=parent), 'ref.yaml'))
    if r.raised or r.ret != 'PARENT-DIRS' or [(x[0], x[1]) for x in asked] != [('parent', ('ref.yaml',))]:
        run.violation('C06.R2', sb, 'SubBuilder.get_lookup_dirs', 'sub-builders do not use the lookup order of their parent (asked: %s, result %r)' % (asked, r.raised or r.ret))
    else:
        run.ok('C06.R2', sb, 'SubBuilder.get_lookup_dirs: the parent\'s directories for the same reference file')
    include_table(repo, run)


def _found_flag(inner, add_call):
    for s in ast.walk(inner):
        if isinstance(s, ast.Assign) and isinstance(s.targets[0], ast.Name) and norm(s.value) == 'True' and s.lineno > add_call.lineno:
            return s.targets[0].id
    return None


def r3(repo, run):
    pass    # decided together with R2 by include_table (one evaluation covers lookup order, first match and missing files)


def _all_subsets():
    import itertools
    cells = [('d1', 'a'), ('d2', 'a'), ('d1', 'b'), ('d2', 'b')]
    return [set(c) for n in range(len(cells) + 1) for c in itertools.combinations(cells, n)]


EXISTS = _all_subsets()      # every way the four candidates (2 names x 2 lookup directories) can exist


def include_table(repo, run):
    """IncludeNode.ayns.on_preprocess_impl evaluated (finite-domain evaluator) with two file names, two lookup directories and a
    table saying which candidate exists: which files are loaded, in which order, and what happens when one is found nowhere"""
    import posixpath
    fi = repo.func('IncludeNode.ayns.on_preprocess_impl')
    rows = 0
    bad2, bad3 = [], []
    for exists in EXISTS:
        me = node_obj('inc', 'IncludeNode', filenames=['a', 'b'], _source_file='/src/main.yaml', _safe=None)
        builder = Obj('builder', 'Builder')
        sub = Obj('sub', 'SubBuilder')
        try:
            # (state an implementation keeps on the builders takes part: they are initialised by their own constructors)
            FDE(repo).call(repo.func('Builder.__init__'), builder)
            FDE(repo, stubs={'get_current_stage_idx'}, stub=lambda *a: 0).call(repo.func('SubBuilder.__init__'), sub, ['inc'], builder)
        except Exception:  # noqa
            builder, sub = Obj('builder', 'Builder'), Obj('sub', 'SubBuilder')
        stream = node_obj('stream', 'StreamNode')
        log = []

        def stub(name, recv, args, kwargs, log=log, exists=exists, sub=sub, stream=stream):
            if name == 'get_subbuilder':
                return sub
            if name == 'get_lookup_dirs':
                log.append(('dirs', tuple(args)))
                return iter(['d1', 'd2'])       # a one-shot iterator, like the generator the real get_lookup_dirs is
            if name == 'add_source':
                f_ = args[0]
                if str(f_).startswith('/cwd/'):
                    f_ = 'd2/' + str(f_)[5:]
                log.append(('add', f_, dict(kwargs)))
                d, _, n = str(f_).rpartition('/')
                if (d, n) not in exists:
                    raise Raised('FileNotFoundError')
                return None
            if name == 'build':
                log.append(('build', tuple(args), {k_: v_ for k_, v_ in kwargs.items() if v_ is not None}))
                return stream
            if name == 'on_preprocess':
                log.append(('on_preprocess',))
                return Opaque('preprocessed stream')
            raise AnalysisError('unexpected stub ' + name)
        f = FDE(repo, stubs={'get_subbuilder', 'get_lookup_dirs', 'add_source', 'build', 'on_preprocess'}, stub=stub)
        # the file system of the table: the including file lives in d1, the working directory is d2 (= /cwd)
        def _norm(pth):
            pth = posixpath.normpath(str(pth))
            if pth.startswith('/cwd/'):
                pth = 'd2/' + pth[5:]
            if '/' not in pth:
                pth = 'd2/' + pth          # a relative name is resolved against the working directory
            return pth

        def _isfile(pth, exists=exists):
            d, _, n = _norm(pth).rpartition('/')
            return (d, n) in exists
        f.extcalls = {'os.path.join': posixpath.join, 'os.path.normpath': posixpath.normpath, 'os.path.isfile': _isfile, 'os.path.exists': _isfile,
                      'os.path.isabs': posixpath.isabs, 'os.path.abspath': lambda x: posixpath.normpath(posixpath.join('/cwd', x))}
        r = fde_guard(lambda: f.call(fi, me, 'p', builder))
        rows += 1
        want_adds = []
        missing = []
        for n in ('a', 'b'):
            hit = False
            for d in ('d1', 'd2'):
                want_adds.append('%s/%s' % (d, n))
                if (d, n) in exists:
                    hit = True
                    break
            if not hit:
                missing.append(n)
        got_adds = [x[1] for x in log if x[0] == 'add']
        built = any(x[0] == 'build' for x in log)
        dirs = [x for x in log if x[0] == 'dirs']
        if got_adds != want_adds:
            first_dup = [x for x in got_adds if got_adds.count(x) > 1]
            if [x for x in got_adds if x.rpartition('/')[2] == 'a'] and [x for x in got_adds if x.rpartition('/')[2] == 'b'] and got_adds.index([x for x in got_adds if x.endswith('/b')][0]) < max(i for i, x in enumerate(got_adds) if x.endswith('/a')):
                why = 'files are not loaded in the order written (outer loop over names, inner over lookup directories): files are loaded (and therefore merged) in lookup-directory order'
            elif len(got_adds) > len(want_adds):
                why = 'the lookup does not stop at the first directory in which the file is found'
            else:
                why = 'candidates tried are %s, expected %s' % (got_adds, want_adds)
            bad2.append((sorted(exists), why, got_adds, want_adds))
        if dirs and any(x[1] != ('/src/main.yaml',) for x in dirs):
            bad2.append((sorted(exists), 'lookup directories are not taken relative to the including file (%s)' % (dirs[0][1],), got_adds, want_adds))
        if any(x[2].get('raw_yaml', 'absent') is not False for x in log if x[0] == 'add'):
            bad2.append((sorted(exists), 'the candidates are not added as files (raw_yaml=False): a name that cannot be opened would be parsed as YAML text instead of being looked for in the next directory', got_adds, want_adds))
        flagged = [x for x in log if x[0] == 'build' and (x[1] or x[2])]
        if flagged and not any('merge-control' in b_[1] for b_ in bad3):
            bad3.append((sorted(exists), 'the included stream is built with %s: the carrier of the included documents must not set merge-control flags of its own (an explicit delete=False handed down makes lists in included files merge index-wise)' % (flagged[0][2] or flagged[0][1],)))
        if missing:
            if r.raised != 'FileNotFoundError':
                bad3.append((sorted(exists), 'files %s are found nowhere but %s' % (missing, 'the sub-build runs although files are missing' if built else 'no FileNotFoundError is raised (raised: %s)' % r.raised)))
            elif built:
                bad3.append((sorted(exists), 'the sub-build runs although files are missing'))
        else:
            if r.raised or not built:
                bad3.append((sorted(exists), 'all files exist but the include %s' % ('raises %s' % r.raised if r.raised else 'does not build the included stream')))
            elif log[-1][0] != 'on_preprocess' or [x[0] for x in log if x[0] in ('build', 'add')][-1] != 'build':
                bad3.append((sorted(exists), 'the included stream is not built after all files were added and preprocessed in turn'))
    run.table('C06.R2', rows, 'include of [a, b] over lookup dirs [d1, d2] x %d existence tables' % len(EXISTS))
    if bad2:
        run.violation('C06.R2', fi, 'include lookup', '%s [files present: %s; tried %s, expected %s]' % (bad2[0][1], bad2[0][0], bad2[0][2], bad2[0][3]), witness=[str(b)[:300] for b in bad2[:5]])
    else:
        run.ok('C06.R2', fi, 'include lookup table (%d rows)' % rows, 'names in written order; per name the lookup directories in order; first match wins; candidate = normpath(join(dir, name))')
    if bad3:
        run.violation('C06.R3', fi, 'missing-file handling', '%s [files present: %s]' % (bad3[0][1], bad3[0][0]), witness=[str(b)[:300] for b in bad3[:5]])
    else:
        run.ok('C06.R3', fi, 'missing-file table (%d rows)' % rows, 'a name found nowhere raises FileNotFoundError and nothing is built; otherwise build() once, after all files')


def include_history(repo, run):
    """two includes of the same relative name processed one after the other by the same builder, from including files in different
    directories (each directory holds its own file of that name): the second include is looked up next to ITS including file first
    - what an earlier include found must not decide it. The builder and sub-builders are initialised by their own constructors
    (evaluated), so that state an implementation keeps on them takes part."""
    import posixpath
    fi = repo.func('IncludeNode.ayns.on_preprocess_impl')
    binit = repo.func('Builder.__init__')
    sinit = repo.func('SubBuilder.__init__')
    builder = Obj('builder', 'Builder')
    fde_guard(lambda: FDE(repo).call(binit, builder))
    exists = {('/d1', 'x'), ('/e1', 'x'), ('/cwd', 'other')}
    log = []
    subs = []

    def stub(name, recv, args, kwargs):
        if name == 'get_subbuilder':
            sub = Obj('sub%d' % len(subs), 'SubBuilder')
            f2 = FDE(repo, stubs={'get_current_stage_idx'}, stub=lambda *a: 0)
            fde_guard(lambda: f2.call(sinit, sub, list(args[0]) if args and isinstance(args[0], list) else ['inc'], builder))
            subs.append(sub)
            return sub
        if name == 'get_lookup_dirs':
            ref = args[0] if args else None
            return iter(([posixpath.dirname(ref)] if ref else []) + ['/cwd'])
        if name == 'add_source':
            log.append(('add', str(args[0])))
            d, _, n = posixpath.normpath(str(args[0])).rpartition('/')
            if (d, n) not in exists:
                raise Raised('FileNotFoundError')
            return None
        if name == 'build':
            return node_obj('stream', 'StreamNode')
        if name == 'on_preprocess':
            return Opaque('preprocessed stream')
        raise AnalysisError('unexpected stub ' + name)

    def _isfile(pth):
        d, _, n = posixpath.normpath(str(pth)).rpartition('/')
        return (d, n) in exists
    firsts = []
    for ref in ('/d1/main.yaml', '/e1/other.yaml'):
        me = node_obj('inc', 'IncludeNode', filenames=['x'], _source_file=ref, _safe=None)
        f = FDE(repo, stubs={'get_subbuilder', 'get_lookup_dirs', 'add_source', 'build', 'on_preprocess'}, stub=stub)
        f.extcalls = {'os.path.join': posixpath.join, 'os.path.normpath': posixpath.normpath, 'os.path.isfile': _isfile, 'os.path.exists': _isfile, 'os.path.isabs': posixpath.isabs,
                      'os.path.abspath': lambda x: posixpath.normpath(posixpath.join('/cwd', x)), 'os.getcwd': lambda: '/cwd', 'os.path.expanduser': lambda x: x, 'os.path.dirname': posixpath.dirname}
        n0 = len(log)
        r = fde_guard(lambda: f.call(fi, me, ['inc'], builder))
        adds = [posixpath.normpath(x[1]) for x in log[n0:]]
        if r.raised or not adds:
            raise AnalysisError('C06.R2: include history row not evaluable (%s)' % (r.raised or 'no source added'))
        firsts.append((ref, adds))
    (r1, a1), (r2, a2) = firsts
    if a1[-1] != '/d1/x' or a2[-1] != '/e1/x' or a2[0] != '/e1/x':
        run.violation('C06.R2', fi, 'include lookup after an earlier include', 'after `!include x` in %s loaded %s, `!include x` in %s tries %s (expected /e1/x first: the directory of the including file): what an earlier include found decides a later one' % (r1, a1[-1], r2, a2))
    else:
        run.ok('C06.R2', fi, 'a second include of the same name from another directory is looked up next to its own including file')


def subbuilder_reads_like_builder(repo, run):
    """a file that an enclosing builder has already read (an earlier sibling: `!include [defaults, experiment]` where experiment
    itself includes defaults) is read again by the sub-builder like any other file - the same document sequence builds the same config
    however it is split over includes. Builder and sub-builder are initialised by their own constructors and the enclosing builder reads
    the file through its own add_source (evaluated; open / the parser are stand-ins), so state kept about sources takes part."""
    import posixpath
    binit = repo.func('Builder.__init__')
    sinit = repo.func('SubBuilder.__init__')
    sub_add = repo.resolve('SubBuilder', 'add_source')
    if sub_add is None:
        raise AnalysisError('C06.R8: SubBuilder.add_source not found')
    builder = Obj('builder', 'Builder')
    fde_guard(lambda: FDE(repo).call(binit, builder))
    parsed = []

    def stub(n, recv, a, k):
        if n == 'read':
            return 'CONTENT'
        if n in ('default_safe_flag', 'default_filename'):
            return Opaque('cm')
        if n == 'get_current_stage_idx':
            return 0
        raise Unsupported('call of ' + n)

    def mk():
        f = FDE(repo, stubs={'read', 'default_safe_flag', 'default_filename', 'get_current_stage_idx'}, stub=stub, max_depth=10)
        import pathlib
        import os as _os
        f.externals = {'pathlib.Path': pathlib.Path, 'os.PathLike': _os.PathLike}
        f.extcalls = {'yaml.parse': lambda src, *a, **k: (parsed.append(src), ['DOC'])[1], 'parse': lambda src, *a, **k: (parsed.append(src), ['DOC'])[1],
                      'open': lambda name, mode='r', **open_options: Obj('file', 'TextIO'), 'os.path.expanduser': lambda x: x, 'os.path.isfile': lambda x: True, 'os.path.exists': lambda x: True,
                      'os.path.abspath': lambda x: posixpath.normpath(posixpath.join('/cwd', x)), 'os.path.normpath': posixpath.normpath, 'os.path.realpath': lambda x: posixpath.normpath(posixpath.join('/cwd', x)),
                      'os.fspath': lambda x: str(x), 'os.getcwd': lambda: '/cwd', 'os.path.join': posixpath.join, 'os.path.dirname': posixpath.dirname, 'os.path.isabs': posixpath.isabs,
                      'os.path.normcase': lambda x: x, 'os.path.basename': posixpath.basename}
        return f
    try:
        r0 = mk().call(repo.func('Builder.add_source'), builder, '/d/defaults.yaml', raw_yaml=False)
        if r0.raised:
            raise AnalysisError('C06.R8: Builder.add_source of an existing file raises %s with stand-in open / parser' % r0.raised)
        sub = Obj('sub', 'SubBuilder')
        r1 = mk().call(sinit, sub, ['inc'], builder)
        if r1.raised:
            raise AnalysisError('C06.R8: SubBuilder.__init__ raises %s' % r1.raised)
        n0 = len(parsed)
        r = mk().call(sub_add, sub, '/d/defaults.yaml', raw_yaml=False, safe=None)
    except Unsupported as e:
        raise AnalysisError('C06.R8: sub-builder source row not evaluable: %s' % e)
    if r.raised:
        run.violation('C06.R8', sub_add, 'a sub-builder reads a file its enclosing builder has read before', 'the enclosing builder has read /d/defaults.yaml as an earlier source; a sub-builder (an include further down) asked for the same file raises %s - `!include [defaults, experiment]` with experiment including defaults fails while the flat sequence [defaults, defaults, experiment] builds' % r.raised)
    elif len(parsed) != n0 + 1 or sub.f.get('stages') != ['DOC']:
        run.violation('C06.R8', sub_add, 'a sub-builder reads a file its enclosing builder has read before', 'the file is not parsed again for the sub-builder (parsed %d time(s), stages %r): the included documents are missing from the stream' % (len(parsed) - n0, sub.f.get('stages')))
    else:
        run.ok('C06.R8', sub_add, 'a sub-builder reads a file the enclosing builder has already read like any other file')


def r4(repo, run):
    init = repo.func('StreamNode.__init__')
    probs = []
    for c in calls_in(init.node):
        if is_method_call(c, recv='kwargs', member=('setdefault', 'update', '__setitem__')) and c.args and isinstance(c.args[0], ast.Constant) and c.args[0].value in FLAGS:
            probs.append((c, 'kwargs.%s(%r, ...)' % (c.func.attr, c.args[0].value)))
        if norm(c.func) == 'super().__init__':
            for k in c.keywords:
                if k.arg in FLAGS:
                    probs.append((c, 'explicit %s=%s' % (k.arg, norm(k.value))))
    for s in walk_no_nested(init.node):
        if isinstance(s, ast.Assign) and isinstance(s.targets[0], ast.Subscript) and norm(s.targets[0].value) == 'kwargs' and isinstance(s.targets[0].slice, ast.Constant) and s.targets[0].slice.value in FLAGS:
            probs.append((s, norm(s)))
    if probs:
        run.violation('C06.R4', init, probs[0][1], 'the internal stream carrier sets a merge-control flag on itself; every included document inherits it (e.g. delete=False makes lists in included files merge index-wise instead of being replaced)', node=probs[0][0])
    else:
        run.ok('C06.R4', init, 'StreamNode.__init__ passes no merge-control argument')
    gk = repo.func('ComposedNode._get_child_kwargs')
    o = node_obj('carrier', 'StreamNode')
    f = FDE(repo)
    r = fde_guard(lambda: f.call(gk, o))
    bad = {k: v for k, v in r.ret.items() if v is not None}
    if bad:
        run.violation('C06.R4', gk, '_get_child_kwargs(StreamNode)', 'documents adopted by a flag-less stream carrier inherit %s (class defaults of the carrier leak to included documents)' % bad)
    else:
        run.ok('C06.R4', gk, '_get_child_kwargs of a flag-less StreamNode: %s' % r.ret, 'included documents get exactly what top-level documents get')
    owner, e = repo.class_attr('StreamNode', '_default_delete')
    ok, v = fold_const(repo, e, owner)
    if not ok or v is not False:
        run.violation('C06.R4', init, 'StreamNode._default_delete', 'carrier deletes by default (%r): it would itself be pruned / prune' % v)


def r6(repo, run):
    fi = repo.func('PathNode.ayns.on_evaluate_impl')
    paths = tr.paths_of(repo, fi, no_inline={'on_evaluate_impl'}, follow_exceptions=False)
    n = 0
    verdicts = {}
    for p in paths:
        for e in p.events:
            if e.kind == 'call' and e.callee == 'pathlib.Path' and e.args and isinstance(e.args[0].ast, ast.Attribute) and e.args[0].ast.attr in ('source_file', '_source_file'):
                n += 1
                x = e.args[0].text
                if x not in ('self.ayns.source_file', 'self._source_file'):
                    verdicts.setdefault(('bad', id(e.node), 1), (e, 'file-relative reference point is not the node\'s own recorded source file (%s)' % x[:50]))
                elif (x + ' is None', False) in e.facts:
                    verdicts.setdefault(('ok', id(e.node), 1), (e, 'own source file; None rejected before'))
                else:
                    verdicts.setdefault(('bad', id(e.node), 2), (e, 'the source file may be None here (node parsed from a string): no `is None` check raising an error dominates this use'))
    for p in paths:
        if p.status != 'return' or not any(pol and t.endswith(("== 'file'", "== 'parent'")) for t, pol in p.facts):
            continue
        for e in p.events:
            if e.kind == 'call' and e.callee == 'pathlib.Path' and e.args and e.args[0].text not in ('self.ayns.source_file', 'self._source_file') and not e.args[0].text.startswith('os.path.normpath('):
                verdicts.setdefault(('bad', id(e.node), 3), (e, 'file-relative reference point is not the node\'s own recorded source file (%s)' % e.args[0].text[:60]))
    if n < 2 and not verdicts:
        raise AnalysisError('PathNode: file / parent branches not recognised (%d uses of source_file)' % n)
    for (kind, _, _), (e, why) in verdicts.items():
        (run.ok if kind == 'ok' else run.violation)('C06.R6', tr.where(fi, e), 'pathlib.Path(<own source file>)', why)
    par = [p for p in paths if p.status == 'return' and any(pol and t.endswith("== 'parent'") for t, pol in p.facts)]
    if not par:
        raise AnalysisError('PathNode: parent branch not found')
    txt = ' '.join((p.ret.text if p.ret is not None else '') + ' ' + ' '.join(e.callee or '' for e in p.events if e.kind == 'call') for p in par)
    # (what parent(n) denotes when n exceeds the parents of the recorded file name is decided by evaluation: unitrules.path_node_tables)
    cwd = [p for p in paths if p.status == 'return' and any(pol and t.endswith("== 'cwd'") for t, pol in p.facts)]
    for p in cwd:
        if 'os.getcwd()' not in (p.ret.text if p.ret is not None else '') and not any(e.kind == 'call' and e.callee == 'os.getcwd' for e in p.events):
            run.violation('C06.R6', fi, 'cwd reference point', 'cwd reference point is not os.getcwd()')
            break


def r7(repo, run):
    fi = repo.func('StreamNode.ayns.on_premerge_impl')
    paths = [p for p in tr.paths_of(repo, fi, no_inline={'flatten', 'on_premerge'}, follow_exceptions=False) if p.status == 'return']
    if not paths:
        raise AnalysisError('StreamNode.on_premerge_impl: no returning path')
    verdict = None
    for p in paths:
        uses = [i for i, e in enumerate(p.events) if (e.kind == 'subscr' and e.callee == 'self.builder.stages') or (e.kind == 'call' and e.recv is not None and e.recv.text.startswith('self.builder.stages['))]
        fl = [i for i, e in enumerate(p.events) if e.kind == 'call' and e.callee == 'self.builder.flatten']
        if not uses:
            raise AnalysisError('StreamNode.on_premerge_impl: stages[0] not used')
        apps = [e.args[0].text if e.args else None for e in p.events if e.kind == 'call' and e.attr == 'append' and e.recv is not None and e.recv.text == 'self']
        apps += [e.args[1].text for e in p.events if e.kind == 'enter' and (e.callee or '').endswith('.append') and len(e.args) == 2 and e.args[0].text == 'self']
        if apps and apps[-1] != 'self.builder.stages[0]':
            verdict = ('bad', 'the carrier is refilled with %s, not with the flattened document (stages[0])' % (apps[-1] or 'nothing')[:50])
        elif not fl or fl[0] > uses[0]:
            verdict = ('bad', 'stages[0] is used before the included documents were flattened (only the first included document would be merged)')
        elif p.ret is None or p.ret.text != 'self.builder.stages[0].ayns.on_premerge(%s, %s)' % (fi.params()[1], fi.params()[2]):
            verdict = verdict if verdict and verdict[0] == 'bad' else ('bad', 'the flattened document\'s own premerge result is not what the stream hands back (returns %s)' % (p.ret.text[:60] if p.ret is not None else None))
        elif verdict is None:
            verdict = ('ok', 'flatten(); ...; return stages[0].ayns.on_premerge(path, into)')
    (run.ok if verdict[0] == 'ok' else run.violation)('C06.R7', fi, 'StreamNode premerge', verdict[1])
    sb = repo.func('SubBuilder.build')
    body = [norm(s) for s in sb.node.body if not isinstance(s, (ast.ImportFrom, ast.Import)) and not (isinstance(s, ast.Expr) and isinstance(s.value, ast.Constant))]
    if body != ['self.preprocess()', 'return StreamNode(self)']:
        # another spelling: decided by evaluation (the steps of the builder are recording stand-ins)
        log = []
        sub = Obj('sub', 'SubBuilder', stages=['S1', 'S2'])

        def stub(name, recv, a, k):
            log.append(name)
            return None
        f = FDE(repo, stubs={'preprocess', 'flatten'}, stub=stub, max_depth=5)
        made = []

        def mk(*a, **k):
            made.append((tuple(a), dict(k)))
            return Obj('stream', 'StreamNode')
        f.constructors = {'StreamNode': mk}
        f.extcalls = {'stream_module.StreamNode': mk, 'stream.StreamNode': mk, 'nodes.StreamNode': mk, 'nodes.stream.StreamNode': mk}
        try:
            r = f.call(sb, sub)
        except Unsupported as e:
            raise AnalysisError('SubBuilder.build: not in the recognised form and not evaluable (%s)' % e)
        if r.raised is None and log == ['preprocess'] and len(made) == 1 and made[0][0][:1] == (sub,) and not any(v is not None for v in made[0][1].values()) and getattr(r.ret, 'name', None) == 'stream':
            run.ok('C06.R7', sb, 'SubBuilder.build: preprocess, then StreamNode(self) (evaluated)')
            return
        run.violation('C06.R7', sb, ' ; '.join(body), 'a sub-build must preprocess its stages and wrap them (unflattened) in a StreamNode')
    else:
        run.ok('C06.R7', sb, 'SubBuilder.build: preprocess(); return StreamNode(self)')


def _stage_origin(node, tags=frozenset()):
    """where a value added to a stage list comes from, read off its canonical (substituted) expression:
    'fresh' (a document of a yaml.parse made by this call, or a deep copy), 'stored' (state that outlives the call) or None"""
    if isinstance(node, ast.Starred):
        return _stage_origin(node.value, tags)
    if isinstance(node, ast.Call):
        f = norm(node.func)
        if f in ('each', 'generated', 'list', 'tuple', 'iter', 'carried') and len(node.args) == 1:
            return _stage_origin(node.args[0], tags)
        if f in ('yaml.parse', 'parse'):
            return 'fresh'
        if f in ('copy.deepcopy', 'deepcopy'):
            return 'fresh'
        if f in ('copy.copy',) and len(node.args) == 1:
            return _stage_origin(node.args[0], tags)      # a shallow copy shares the sub-trees of its original
        if f in ('filter',) and len(node.args) == 2:
            return _stage_origin(node.args[1], tags)
        if isinstance(node.func, ast.Attribute) and node.func.attr in ('get', 'setdefault', 'pop', 'copy') and _stage_origin(node.func.value, tags) == 'stored':
            return 'stored'
        return None
    if isinstance(node, (ast.GeneratorExp, ast.ListComp)) and len(node.generators) == 1:
        g = node.generators[0]
        elt = node.elt
        while isinstance(elt, ast.Call) and norm(elt.func) == 'copy.copy' and len(elt.args) == 1:
            elt = elt.args[0]                       # a shallow copy shares the sub-trees of its original
        if isinstance(elt, ast.Name) and isinstance(g.target, ast.Name) and elt.id == g.target.id:
            return _stage_origin(g.iter, tags)      # (d for d in <iter> if ...): a selection of the iterable's own elements
        o = _stage_origin(node.elt, tags)
        return o if o == 'fresh' else None
    if isinstance(node, ast.Subscript):
        # something looked up by key / position was put there earlier, unless the container itself is this call's parse result
        return 'fresh' if _stage_origin(node.value, tags) == 'fresh' else 'stored'
    if isinstance(node, ast.Attribute):
        base = node
        while isinstance(base, (ast.Attribute, ast.Subscript)):
            base = base.value
        if isinstance(base, ast.Name) and base.id in ('self', 'cls'):
            return 'stored'
        return _stage_origin(base, tags)
    if isinstance(node, ast.Name) and 'free:%s' % node.id in tags:
        return 'stored'       # a module-level object
    return None


def r8(repo, run):
    n = 0
    for fi in repo.all_functions(include_nested=False):
        if fi.cls is not None and fi.cls.name in ('Builder', 'SubBuilder') and fi.name in ('__init__', 'flatten', 'preprocess'):
            continue
        if not any(isinstance(c.func, ast.Attribute) and norm(c.func.value).endswith('stages') and c.func.attr in ('append', 'extend', 'insert') for c in calls_in(fi.node)):
            continue
        if only_reached_from(repo, fi.qualname, {'Builder.flatten', 'Builder.preprocess', 'Builder.__init__'}):
            continue
        seen = {}
        for p in tr.paths_of(repo, fi, follow_exceptions=False):
            for e in p.events:
                if e.kind == 'call' and e.attr in ('append', 'extend', 'insert') and e.recv is not None and e.recv.text.endswith('.stages') and e.args:
                    seen.setdefault((id(e.node), _stage_origin(e.args[-1].ast, e.args[-1].tags)), e)
        for (_, origin), e in seen.items():
            n += 1
            if origin == 'fresh':
                run.ok('C06.R8', tr.where(fi, e), norm(e.node)[:100], 'fresh parse result of this call / deep copy (%s)' % e.args[-1].text[:80])
            elif origin == 'stored':
                run.violation('C06.R8', fi, norm(e.node), 'documents that were not parsed by this call are added as stages (cached / stored node objects: %s): the same nodes end up under several include sites and merging one of them changes the others' % e.args[-1].text[:80], node=e.node)
            else:
                raise AnalysisError('C06.R8: origin of the stage added by %s in %s not recognised (%s)' % (norm(e.node)[:60], fi.qualname, e.args[-1].text[:80]))
    if n < 1:
        raise AnalysisError('C06.R8: no stage append found in Builder.add_source')


def check(repo, run, tier):
    g = Guard()
    g(r1, repo, run)
    g(r2, repo, run)
    g(r3, repo, run)
    g(r4, repo, run)
    g(_as, run, 'C07.R6', 'C06.R5', lambda: c07.r6(repo, run))
    g(r6, repo, run)
    g(r7, repo, run)
    g(r8, repo, run)
    g(buildrules.builder_pipeline, repo, run, 'C06.R9')
    g(unitrules.subbuilder_request, repo, run, 'C06.R10')
    g(unitrules.include_init, repo, run, 'C06.R2')
    g(unitrules.stream_init, repo, run, 'C06.R7')
    g(unitrules.path_node_tables, repo, run, 'C06.R6')
    g(unitrules.tag_spec, repo, run, 'C06.R2', ['!include', '!rec', '!path', '!path:'])
    g(unitrules.current_file_tracking, repo, run, 'C06.R10')
    g(unitrules.add_source_table, repo, run, 'C06.R2')
    g(buildrules.pipeline_from_sources, repo, run, 'C06.R9')
    g(subbuilder_reads_like_builder, repo, run)
    g(include_history, repo, run)
    g.done()


def merge_two(r):
    import re
    fi = r.func('IncludeNode.ayns.on_preprocess_impl')
    m = fi.module
    a, b = fi.node.lineno, fi.node.end_lineno
    seg = '\n'.join(m.lines[a - 1:b])
    seg = re.sub(r'\bfound\b', 'located', seg)
    seg = re.sub(r'\bmissing\b', 'not_found', seg.replace("'missing'", "'MISSING_KEY'")).replace("'MISSING_KEY'", "'missing'")
    seg = re.sub(r'\blookup_dir\b', 'candidate_dir', seg)
    return {m.relpath: '\n'.join(m.lines[:a - 1] + seg.split('\n') + m.lines[b:])}


def mutants(repo):
    return [
        Mutant('unexpected-os-errors-swallowed', lambda r: in_func(r, 'Builder.add_source', "e.errno not in [22, 36]", "e.errno in [22, 36]"), ['C06.R2']),
        Mutant('missing-file-is-yaml-even-when-a-file-was-asked-for', lambda r: in_func(r, 'Builder.add_source', "                if raw_yaml is not None:\n                    raise\n", "                pass\n"), ['C06.R2']),
        Mutant('empty-documents-become-stages', lambda r: in_func(r, 'Builder.add_source', "                        if node is not None:\n                            self.stages.append(node)", "                        self.stages.append(node)"), ['C06.R2']),
        Mutant('opened-file-not-recorded', lambda r: in_func(r, 'Builder.add_source', "                    self._current_file = source\n", "                    pass\n"), ['C06.R10']),
        Mutant('multi-constructors-not-registered', lambda r: in_func(r, 'yaml.add_multi_constructor', "    yaml.add_multi_constructor(tag, constructor, Loader=AwesomeyamlLoader)", "    pass"), ['C06.R2']),
        Mutant('parent-clamp-negated', lambda r: in_func(r, 'PathNode.ayns.on_evaluate_impl', "if ref_point_args >= len(src.parents):", "if not ref_point_args >= len(src.parents):"), ['C06.R6']),
        Mutant('path-ref-point-parse', lambda r: in_func(r, 'PathNode.__init__', "            if parent_match:\n                idx = 0", "            if not parent_match:\n                idx = 0"), ['C06.R6']),
        Mutant('include-as-raw-yaml', lambda r: in_func(r, 'IncludeNode.ayns.on_preprocess_impl', "subbuilder.add_source(file, raw_yaml=False, safe=self.ayns.safe)", "subbuilder.add_source(file, safe=self.ayns.safe)"), ['C06.R2']),
        Mutant('include-one-name-split', lambda r: in_func(r, 'IncludeNode.__init__', "if not isinstance(filenames, cabc.Sequence) or isinstance(filenames, str):", "if not isinstance(filenames, cabc.Sequence) and isinstance(filenames, str):"), ['C06.R2']),
        Mutant('stream-without-stages', lambda r: in_func(r, 'StreamNode.__init__', "        super().__init__(builder.stages, **kwargs)\n", ""), ['C06.R7']),
        Mutant('subbuilder-outside-preprocessing', lambda r: in_func(r, 'Builder.get_subbuilder', "if self._current_stage is None:", "if self._current_stage is not None:"), ['C06.R10']),
        Mutant('build-skips-preprocess', lambda r: in_func(r, 'Builder.build', "        self.preprocess()\n        self.flatten()", "        self.flatten()"), ['C06.R9']),
        Mutant('preprocess-keeps-old-stage', lambda r: in_func(r, 'Builder.preprocess', "if new_stage is not stage:", "if new_stage is stage:"), ['C06.R9', 'C06.R1']),
        Mutant('flatten-ignores-premerge-result', lambda r: in_func(r, 'Builder.flatten', "if new_stage is not self.stages[0]:", "if new_stage is self.stages[0]:"), ['C06.R9']),
        Mutant('stage-count-frozen-before-expansion', lambda r: in_func(r, 'Builder.preprocess', "        i = 0\n        while i < len(self.stages):", "        i = 0\n        count = len(self.stages)\n        while i < count:"), ['C06.R9']),
        Mutant('documents-without-keys-not-merged', lambda r: in_func(r, 'Builder.flatten', "            root = root.ayns.merge(self.stages[i])", "            if not self.stages[i].ayns.children_count():\n                continue\n            root = root.ayns.merge(self.stages[i])"), ['C06.R9']),
        Mutant('subbuilder-refuses-files-read-by-the-parent', lambda r: in_func(r, 'Builder.add_source', "        try:\n            if filename is not None:", "        if getattr(self, 'parent', None) is not None and source in getattr(self.parent, '_seen_sources', ()):\n            raise ValueError('Circular include')\n        self.__dict__.setdefault('_seen_sources', []).append(source)\n        try:\n            if filename is not None:"), ['C06.R8']),
        Mutant('splice-reversed', lambda r: in_func(r, 'Builder.preprocess', "self.stages[i:i+1] = new_stage.stages", "self.stages[i:i+1] = reversed(new_stage.stages)"), ['C06.R1']),
        Mutant('cursor-advances-by-one', lambda r: in_func(r, 'Builder.preprocess', "i += len(new_stage.stages)", "i += len(new_stage.stages[:1])"), ['C06.R1']),
        Mutant('cwd-before-file-dir', lambda r: in_func(r, 'Builder.get_lookup_dirs', "        if ref_point is not None:\n            yield os.path.dirname(ref_point)\n        yield os.getcwd()", "        yield os.getcwd()\n        if ref_point is not None:\n            yield os.path.dirname(ref_point)"), ['C06.R2']),
        Mutant('include-loops-swapped', lambda r: in_func(r, 'IncludeNode.ayns.on_preprocess_impl',
               "        for filename in self.filenames:\n            found = False\n            for lookup_dir in subbuilder.get_lookup_dirs(self._source_file):",
               "        for lookup_dir in subbuilder.get_lookup_dirs(self._source_file):\n            found = False\n            for filename in self.filenames:"), ['C06.R2']),
        Mutant('include-loads-from-every-dir', lambda r: in_func(r, 'IncludeNode.ayns.on_preprocess_impl', "                if found:\n                    break\n", ""), ['C06.R2']),
        Mutant('missing-file-ignored', lambda r: in_func(r, 'IncludeNode.ayns.on_preprocess_impl', "        if missing:\n            raise FileNotFoundError", "        if False:\n            raise FileNotFoundError"), ['C06.R3']),
        Mutant('F6-reverted-carrier-sets-delete', lambda r: in_func(r, 'StreamNode.__init__', "        super().__init__(builder.stages, **kwargs)", "        kwargs.setdefault('delete', False)\n        super().__init__(builder.stages, **kwargs)"), ['C06.R4']),
        Mutant('child-kwargs-leak-default', lambda r: in_func(r, 'ComposedNode._get_child_kwargs', "notnone_or(self._delete, self._default_delete or self._implicit_delete)", "notnone_or(self._delete, notnone_or(self._implicit_delete, self._default_delete))"), ['C06.R4']),
        Mutant('include-drops-safe', lambda r: in_func(r, 'IncludeNode.ayns.on_preprocess_impl', ", safe=self.ayns.safe)", ")"), ['C06.R5']),
        Mutant('path-file-uses-cwd', lambda r: in_func(r, 'PathNode.ayns.on_evaluate_impl', "ret = pathlib.Path(self.ayns.source_file).joinpath(*args)", "ret = pathlib.Path(ctx.get_eval_symbols().get('__file__', self.ayns.source_file)).joinpath(*args)"), ['C06.R6']),
        Mutant('path-parent-clamped', lambda r: in_func(r, 'PathNode.ayns.on_evaluate_impl',
               "            if ref_point_args >= len(src.parents):\n                diff = ref_point_args - len(src.parents) + 1\n                ref_point_args = len(src.parents) - 1\n                args = ['..'] * diff + args\n", "            ref_point_args = min(ref_point_args, len(src.parents) - 1)\n"), ['C06.R6']),
        Mutant('stream-not-flattened', lambda r: in_func(r, 'StreamNode.ayns.on_premerge_impl', "        self.builder.flatten()\n", ""), ['C06.R7']),
        Mutant('parse-cache-shares-nodes', lambda r: in_func(r, 'Builder.add_source',
               "                    for node in yaml.parse(source, self):\n                        if node is not None:\n                            self.stages.append(node)",
               "                    key = (self._current_file, bool(safe))\n                    docs = _PARSED.get(key)\n                    if docs is None:\n                        docs = _PARSED.setdefault(key, [n for n in yaml.parse(source, self) if n is not None])\n                    self.stages.extend(docs)"), ['C06.R8']),
        Mutant('stream-carrier-refilled-with-second-stage', lambda r: in_func(r, 'StreamNode.ayns.on_premerge_impl', "self.append(self.builder.stages[0])", "self.append(self.builder.stages[1])"), ['C06.R7']),
        Mutant('neutral-include-rename-var', lambda r: merge_two(r), neutral=True),
    ]
