"""C06 - streams are flattened in order: sources, multi-doc files and !include agree."""
import ast

from .. import cfg as cfgmod
from ..fde import FDE
from ..mutate import Mutant, in_func, delete_stmt, in_module
from ..report import AnalysisError
from ..srcmodel import unparse, norm, walk_no_nested, calls_in, fold_const
from .common import is_method_call, cfg_of, get_kw, recv_of, name_defs, node_obj, fde_guard, facts_at, find_stmt_node, parent_chain, F3
from . import c07
from .c10 import _as

PROP = 'C06'
DECIDED = [
    'R1: Builder.preprocess splices the stages of an included stream in place, in order (slice assignment of the plain .stages attribute, cursor advanced by its length).',
    'R2: lookup order and first match: get_lookup_dirs yields the directory of the reference file (when there is one) before the cwd; !include loads its files in the order written (outer loop over names, inner over lookup dirs) and leaves the inner loop after the first successful add_source.',
    'R3: a file found nowhere is appended to `missing`; the sub-build is reachable only when `missing` is empty, otherwise an error carrying `missing` is raised.',
    'R4: the stream carrier is flag-neutral: StreamNode passes no merge-control argument to its base constructor and _get_child_kwargs of a carrier yields no inherited flag (all three None).',
    'R5: include safety and parse context (C07.R6): sources are parsed inside default_safe_flag / with safe= derived from the including node.',
    'R6: !path file/parent reference points use the node\'s own recorded source file and raise when it is missing; parent(n) beyond the recorded name\'s parents is handled by ".." padding or by absolutising the file name.',
    'R7: StreamNode premerge flattens its builder before taking stages[0] and returns that document\'s own premerge result.',
    'R8: every document added by add_source is a fresh parse result of that call (or a deep copy): stage nodes are never shared between include sites.',
]
UNDECIDED = ['equality of the four ways of splitting a document sequence as data;', 'file-system semantics of normpath/join;', 'abs(...) reference point arithmetic.']
FLAGS = ('delete', 'allow_new', 'safe', 'priority')


def r1(repo, run):
    fi = repo.func('Builder.preprocess')
    sl = [s for s in ast.walk(fi.node) if isinstance(s, ast.Assign) and isinstance(s.targets[0], ast.Subscript) and norm(s.targets[0].value) == 'self.stages' and isinstance(s.targets[0].slice, ast.Slice)]
    if len(sl) != 1:
        raise AnalysisError('Builder.preprocess: splice `self.stages[i:i+1] = ...` not recognised')
    s = sl[0]
    idx = norm(s.targets[0].slice.lower)
    probs = []
    if norm(s.targets[0].slice.upper).replace(' ', '') != (idx + '+1'):
        probs.append('replaced slice is [%s:%s], not exactly the stage being preprocessed' % (idx, norm(s.targets[0].slice.upper)))
    rhs = s.value
    if not (isinstance(rhs, ast.Attribute) and rhs.attr == 'stages'):
        probs.append('spliced sequence is %s (reversed / sorted / sliced copies change the document order)' % norm(rhs))
    parent = [p for p in parent_chain(s) if isinstance(p, (ast.Try, ast.If, ast.While))]
    adv = None
    for st in ast.walk(fi.node):
        if isinstance(st, ast.AugAssign) and norm(st.target) == idx and 'len(' in norm(st.value) and st.lineno > s.lineno:
            adv = st
            break
    if adv is None or norm(adv.value) != 'len(%s)' % norm(rhs):
        probs.append('cursor is not advanced by the number of spliced stages')
    if probs:
        run.violation('C06.R1', fi, norm(s), '; '.join(probs), node=s)
    else:
        run.ok('C06.R1', (fi.file, s.lineno, fi.qualname), norm(s) + ' ; ' + norm(adv), 'in place, in order')
    fl = repo.func('Builder.flatten')
    sl2 = [x for x in ast.walk(fl.node) if isinstance(x, ast.Assign) and isinstance(x.targets[0], ast.Subscript) and norm(x.targets[0]) == 'self.stages[0:1]']
    if sl2 and not (isinstance(sl2[0].value, ast.Attribute) and sl2[0].value.attr == 'stages'):
        run.violation('C06.R1', fl, norm(sl2[0]), 'first-stage stream is not spliced in order', node=sl2[0])


def r2(repo, run):
    g = repo.func('Builder.get_lookup_dirs')
    ys = [s for s in walk_no_nested(g.node) if isinstance(s, ast.Expr) and isinstance(s.value, ast.Yield)]
    if len(ys) != 2:
        raise AnalysisError('get_lookup_dirs: expected two yields')
    first, second = ys
    cg = cfg_of(g)
    f1 = facts_at(cg, [n for n in cg.nodes if n.ast is first][0])
    ref = g.params()[1]
    if norm(first.value.value) != 'os.path.dirname(%s)' % ref or ('%s is None' % ref, False) not in f1 or norm(second.value.value) != 'os.getcwd()':
        run.violation('C06.R2', g, '%s ; %s' % (norm(first), norm(second)), 'lookup directories are not [directory of the including file (if any), then the working directory]')
    else:
        run.ok('C06.R2', g, 'yield os.path.dirname(ref_point) [if ref_point is not None]; yield os.getcwd()')
    sb = repo.func('SubBuilder.get_lookup_dirs')
    if [norm(s) for s in sb.node.body] != ['return self.parent.get_lookup_dirs(%s)' % sb.params()[1]]:
        run.violation('C06.R2', sb, norm(sb.node.body[-1]), 'sub-builders do not use the lookup order of their parent')
    for q in ('IncludeNode.ayns.on_preprocess_impl',):
        fi = repo.func(q)
        adds = [c for c in calls_in(fi.node) if isinstance(c.func, ast.Attribute) and c.func.attr == 'add_source']
        if len(adds) != 1:
            raise AnalysisError('%s: single add_source call not recognised' % q)
        c = adds[0]
        fors = [p for p in parent_chain(c) if isinstance(p, ast.For)]
        if len(fors) != 2:
            raise AnalysisError('%s: add_source is not inside two nested loops' % q)
        inner, outer = fors[0], fors[1]
        probs = []
        if norm(outer.iter) != 'self.filenames':
            probs.append('outer loop iterates %s, not the file names in the order written: files are loaded (and therefore merged) in lookup-directory order' % norm(outer.iter))
        if 'get_lookup_dirs(self._source_file)' not in norm(inner.iter):
            probs.append('inner loop iterates %s, not the lookup directories relative to the including file' % norm(inner.iter))
        # after success: leave the inner loop before another add_source
        breaks = [s for s in ast.walk(inner) if isinstance(s, ast.Break)]
        ok_break = False
        for b in breaks:
            conds = [p for p in parent_chain(b) if isinstance(p, ast.If)]
            if conds and norm(conds[0].test) in (_found_flag(inner, c),):
                ok_break = True
            if any(isinstance(p, ast.Try) for p in parent_chain(b)[:3]) and not conds:
                ok_break = True
        sets_found = _found_flag(inner, c) is not None
        if not (ok_break and sets_found):
            probs.append('the lookup does not stop at the first directory in which the file is found')
        if probs:
            run.violation('C06.R2', fi, unparse(c), '; '.join(probs), node=c)
        else:
            run.ok('C06.R2', (fi.file, c.lineno, fi.qualname), 'for filename in self.filenames: for lookup_dir in ...: add_source; found -> break', 'written order, first match wins')
        fl = [x for x in calls_in(inner) if norm(x.func) == 'os.path.join']
        if not fl or [norm(a) for a in fl[0].args] != [norm(inner.target), norm(outer.target)]:
            run.violation('C06.R2', fi, unparse(fl[0]) if fl else 'os.path.join', 'the candidate file is not join(lookup_dir, filename)')


def _found_flag(inner, add_call):
    for s in ast.walk(inner):
        if isinstance(s, ast.Assign) and isinstance(s.targets[0], ast.Name) and norm(s.value) == 'True' and s.lineno > add_call.lineno:
            return s.targets[0].id
    return None


def r3(repo, run):
    fi = repo.func('IncludeNode.ayns.on_preprocess_impl')
    g = cfg_of(fi)
    adds = [c for c in calls_in(fi.node) if isinstance(c.func, ast.Attribute) and c.func.attr == 'add_source']
    inner_loops = [p for p in parent_chain(adds[0]) if isinstance(p, ast.For)] if adds else []
    found = _found_flag(inner_loops[0], adds[0]) if inner_loops else None
    ap = [s for s in ast.walk(fi.node) if isinstance(s, ast.If) and norm(s.test) == 'not %s' % found and any(isinstance(c.func, ast.Attribute) and c.func.attr == 'append' for c in calls_in(s))]
    missing = norm([c for c in calls_in(ap[0]) if isinstance(c.func, ast.Attribute) and c.func.attr == 'append'][0].func.value) if ap else 'missing'
    rz = [s for s in fi.node.body if isinstance(s, ast.If) and norm(s.test) == missing and any(isinstance(b, ast.Raise) for b in s.body)]
    builds = g.find_calls(lambda c: is_method_call(c, member='build', ayns=False))
    probs = []
    if not ap:
        probs.append('a file that was found nowhere is not recorded in `missing`')
    if not rz:
        probs.append('a non-empty `missing` list does not fail the build')
    elif missing not in norm(rz[0].body[-1].exc):
        probs.append('the error does not name the missing files')
    if not builds:
        raise AnalysisError('IncludeNode: subbuilder.build() not found')
    for n, c in builds:
        if (missing, False) not in facts_at(g, n):
            probs.append('the sub-build runs although files are missing')
    # found is reset per file name
    outer = [s for s in fi.node.body if isinstance(s, ast.For)]
    if outer and not any(isinstance(s, ast.Assign) and norm(s) == '%s = False' % found for s in outer[0].body):
        probs.append('`found` is not reset for every file name')
    if probs:
        run.violation('C06.R3', fi, 'missing-file handling', '; '.join(probs))
    else:
        run.ok('C06.R3', (fi.file, rz[0].lineno, fi.qualname), 'if not found: missing.append(filename) ... if missing: raise FileNotFoundError({... missing ...}) ; build only when empty')


def r4(repo, run):
    init = repo.func('StreamNode.__init__')
    probs = []
    for c in calls_in(init.node):
        if is_method_call(c, recv='kwargs', member=('setdefault', 'update', '__setitem__')) and c.args and isinstance(c.args[0], ast.Constant) and c.args[0].value in FLAGS:
            probs.append((c, 'kwargs.%s(%r, ...)' % (c.func.attr, c.args[0].value)))
        if norm(c.func) == 'super().__init__':
            for k in c.keywords:
                if k.arg in FLAGS:
                    probs.append((c, 'explicit %s=%s' % (k.arg, norm(k.value))))
    for s in walk_no_nested(init.node):
        if isinstance(s, ast.Assign) and isinstance(s.targets[0], ast.Subscript) and norm(s.targets[0].value) == 'kwargs' and isinstance(s.targets[0].slice, ast.Constant) and s.targets[0].slice.value in FLAGS:
            probs.append((s, norm(s)))
    if probs:
        run.violation('C06.R4', init, probs[0][1], 'the internal stream carrier sets a merge-control flag on itself; every included document inherits it (e.g. delete=False makes lists in included files merge index-wise instead of being replaced)', node=probs[0][0])
    else:
        run.ok('C06.R4', init, 'StreamNode.__init__ passes no merge-control argument')
    gk = repo.func('ComposedNode._get_child_kwargs')
    o = node_obj('carrier', 'StreamNode')
    f = FDE(repo)
    r = fde_guard(lambda: f.call(gk, o))
    bad = {k: v for k, v in r.ret.items() if v is not None}
    if bad:
        run.violation('C06.R4', gk, '_get_child_kwargs(StreamNode)', 'documents adopted by a flag-less stream carrier inherit %s (class defaults of the carrier leak to included documents)' % bad)
    else:
        run.ok('C06.R4', gk, '_get_child_kwargs of a flag-less StreamNode: %s' % r.ret, 'included documents get exactly what top-level documents get')
    owner, e = repo.class_attr('StreamNode', '_default_delete')
    ok, v = fold_const(repo, e, owner)
    if not ok or v is not False:
        run.violation('C06.R4', init, 'StreamNode._default_delete', 'carrier deletes by default (%r): it would itself be pruned / prune' % v)


def r6(repo, run):
    fi = repo.func('PathNode.ayns.on_evaluate_impl')
    g = cfg_of(fi)
    n = 0
    for node in g.stmt_nodes():
        for c in node.calls():
            if norm(c.func) == 'pathlib.Path' and c.args and 'source_file' in norm(c.args[0]):
                n += 1
                if norm(c.args[0]) not in ('self.ayns.source_file', 'self._source_file'):
                    run.violation('C06.R6', fi, unparse(c), 'file-relative reference point is not the node\'s own recorded source file', node=c)
                    continue
                facts = facts_at(g, node)
                if ('%s is None' % norm(c.args[0]), False) in facts:
                    run.ok('C06.R6', (fi.file, c.lineno, fi.qualname), unparse(c), 'own source file; None rejected before')
                else:
                    run.violation('C06.R6', fi, unparse(c), 'the source file may be None here (node parsed from a string): no `is None` check raising an error dominates this use', node=c)
    if n < 2:
        raise AnalysisError('PathNode: file / parent branches not recognised (%d uses of source_file)' % n)
    par = [s for s in ast.walk(fi.node) if isinstance(s, ast.If) and norm(s.test) == "ref_point == 'parent'"]
    if not par:
        raise AnalysisError('PathNode: parent branch not found')
    src = norm(ast.Module(body=par[0].body, type_ignores=[]))
    if "'..'" in src or any(k in src for k in ('abspath', '.resolve()', '.absolute()')):
        run.ok('C06.R6', (fi.file, par[0].lineno, fi.qualname), 'parent(n) beyond the recorded parents', 'padded with ".." / absolutised')
    else:
        run.violation('C06.R6', fi, 'parent(n) branch', 'parent(n) with n beyond the parents of the *recorded* (possibly relative) file name is clamped: the same node denotes different locations depending on whether its file was reached through a relative or an absolute name', node=par[0])
    for s in ast.walk(fi.node):
        if isinstance(s, ast.If) and norm(s.test) == "ref_point == 'cwd'":
            if 'os.getcwd()' not in norm(s.body[0]):
                run.violation('C06.R6', fi, norm(s.body[0]), 'cwd reference point is not os.getcwd()')


def r7(repo, run):
    fi = repo.func('StreamNode.ayns.on_premerge_impl')
    g = cfg_of(fi)
    uses = []
    for node in g.stmt_nodes():
        for sub in ast.walk(node.ast) if node.ast is not None else []:
            if isinstance(sub, ast.Subscript) and norm(sub) == 'self.builder.stages[0]':
                uses.append((node, sub))
    if not uses:
        raise AnalysisError('StreamNode.on_premerge_impl: stages[0] not used')
    seen, _ = cfgmod.must_have_seen(g, lambda c: norm(c.func) == 'self.builder.flatten')
    bad = [u for u in uses if not seen[u[0].id]]
    last = fi.node.body[-1]
    if bad:
        run.violation('C06.R7', fi, norm(bad[0][0].ast), 'stages[0] is used before the included documents were flattened (only the first included document would be merged)', node=bad[0][0].ast)
    elif norm(last) != 'return self.builder.stages[0].ayns.on_premerge(%s, %s)' % (fi.params()[1], fi.params()[2]):
        run.violation('C06.R7', fi, norm(last), 'the flattened document\'s own premerge result is not what the stream hands back')
    else:
        run.ok('C06.R7', fi, 'flatten(); ...; return stages[0].ayns.on_premerge(path, into)')
    sb = repo.func('SubBuilder.build')
    body = [norm(s) for s in sb.node.body if not isinstance(s, (ast.ImportFrom, ast.Import)) and not (isinstance(s, ast.Expr) and isinstance(s.value, ast.Constant))]
    if body != ['self.preprocess()', 'return StreamNode(self)']:
        run.violation('C06.R7', sb, ' ; '.join(body), 'a sub-build must preprocess its stages and wrap them (unflattened) in a StreamNode')
    else:
        run.ok('C06.R7', sb, 'SubBuilder.build: preprocess(); return StreamNode(self)')


def r8(repo, run):
    n = 0
    for q in ('Builder.add_source',) + tuple(f.qualname for f in repo.all_functions(include_nested=False) if f.cls is not None and f.cls.name in ('Builder', 'SubBuilder') and f.name not in ('add_source', '__init__', 'flatten', 'preprocess')):
        fi = repo.func(q)
        for c in calls_in(fi.node):
            if isinstance(c.func, ast.Attribute) and norm(c.func.value) == 'self.stages' and c.func.attr in ('append', 'extend', 'insert'):
                n += 1
                arg = c.args[-1]
                fresh = False
                if isinstance(arg, ast.Name):
                    for p in parent_chain(c):
                        if isinstance(p, ast.For) and norm(p.target) == arg.id and isinstance(p.iter, ast.Call) and norm(p.iter.func) in ('yaml.parse', 'parse'):
                            fresh = True
                if isinstance(arg, ast.Call) and norm(arg.func) in ('copy.deepcopy', 'deepcopy'):
                    fresh = True
                if isinstance(arg, (ast.GeneratorExp, ast.ListComp)) and isinstance(arg.elt, ast.Call) and norm(arg.elt.func) in ('copy.deepcopy', 'deepcopy'):
                    fresh = True
                if fresh:
                    run.ok('C06.R8', (fi.file, c.lineno, fi.qualname), unparse(c), 'fresh parse result of this call / deep copy')
                else:
                    run.violation('C06.R8', fi, unparse(c), 'documents that were not parsed by this call are added as stages (cached / stored node objects): the same nodes end up under several include sites and merging one of them changes the others', node=c)
    if n < 1:
        raise AnalysisError('C06.R8: no stage append found in Builder.add_source')


def check(repo, run, tier):
    r1(repo, run)
    r2(repo, run)
    r3(repo, run)
    r4(repo, run)
    _as(run, 'C07.R6', 'C06.R5', lambda: c07.r6(repo, run))
    r6(repo, run)
    r7(repo, run)
    r8(repo, run)


def merge_two(r):
    import re
    fi = r.func('IncludeNode.ayns.on_preprocess_impl')
    m = fi.module
    a, b = fi.node.lineno, fi.node.end_lineno
    seg = '\n'.join(m.lines[a - 1:b])
    seg = re.sub(r'\bfound\b', 'located', seg)
    seg = re.sub(r'\bmissing\b', 'not_found', seg.replace("'missing'", "'MISSING_KEY'")).replace("'MISSING_KEY'", "'missing'")
    seg = re.sub(r'\blookup_dir\b', 'candidate_dir', seg)
    return {m.relpath: '\n'.join(m.lines[:a - 1] + seg.split('\n') + m.lines[b:])}


def mutants(repo):
    return [
        Mutant('splice-reversed', lambda r: in_func(r, 'Builder.preprocess', "self.stages[i:i+1] = new_stage.stages", "self.stages[i:i+1] = reversed(new_stage.stages)"), ['C06.R1']),
        Mutant('cursor-advances-by-one', lambda r: in_func(r, 'Builder.preprocess', "i += len(new_stage.stages)", "i += len(new_stage.stages[:1])"), ['C06.R1']),
        Mutant('cwd-before-file-dir', lambda r: in_func(r, 'Builder.get_lookup_dirs', "        if ref_point is not None:\n            yield os.path.dirname(ref_point)\n        yield os.getcwd()", "        yield os.getcwd()\n        if ref_point is not None:\n            yield os.path.dirname(ref_point)"), ['C06.R2']),
        Mutant('include-loops-swapped', lambda r: in_func(r, 'IncludeNode.ayns.on_preprocess_impl',
               "        for filename in self.filenames:\n            found = False\n            for lookup_dir in subbuilder.get_lookup_dirs(self._source_file):",
               "        for lookup_dir in subbuilder.get_lookup_dirs(self._source_file):\n            found = False\n            for filename in self.filenames:"), ['C06.R2']),
        Mutant('include-loads-from-every-dir', lambda r: in_func(r, 'IncludeNode.ayns.on_preprocess_impl', "                if found:\n                    break\n", ""), ['C06.R2']),
        Mutant('missing-file-ignored', lambda r: in_func(r, 'IncludeNode.ayns.on_preprocess_impl', "        if missing:\n            raise FileNotFoundError", "        if False:\n            raise FileNotFoundError"), ['C06.R3']),
        Mutant('F6-reverted-carrier-sets-delete', lambda r: in_func(r, 'StreamNode.__init__', "        super().__init__(builder.stages, **kwargs)", "        kwargs.setdefault('delete', False)\n        super().__init__(builder.stages, **kwargs)"), ['C06.R4']),
        Mutant('child-kwargs-leak-default', lambda r: in_func(r, 'ComposedNode._get_child_kwargs', "notnone_or(self._delete, self._default_delete or self._implicit_delete)", "notnone_or(self._delete, notnone_or(self._implicit_delete, self._default_delete))"), ['C06.R4']),
        Mutant('include-drops-safe', lambda r: in_func(r, 'IncludeNode.ayns.on_preprocess_impl', ", safe=self.ayns.safe)", ")"), ['C06.R5']),
        Mutant('path-file-uses-cwd', lambda r: in_func(r, 'PathNode.ayns.on_evaluate_impl', "ret = pathlib.Path(self.ayns.source_file).joinpath(*args)", "ret = pathlib.Path(ctx.get_eval_symbols().get('__file__', self.ayns.source_file)).joinpath(*args)"), ['C06.R6']),
        Mutant('path-parent-clamped', lambda r: in_func(r, 'PathNode.ayns.on_evaluate_impl',
               "            if ref_point_args >= len(src.parents):\n                diff = ref_point_args - len(src.parents) + 1\n                ref_point_args = len(src.parents) - 1\n                args = ['..'] * diff + args\n", "            ref_point_args = min(ref_point_args, len(src.parents) - 1)\n"), ['C06.R6']),
        Mutant('stream-not-flattened', lambda r: in_func(r, 'StreamNode.ayns.on_premerge_impl', "        self.builder.flatten()\n", ""), ['C06.R7']),
        Mutant('parse-cache-shares-nodes', lambda r: in_func(r, 'Builder.add_source',
               "                    for node in yaml.parse(source, self):\n                        if node is not None:\n                            self.stages.append(node)",
               "                    key = (self._current_file, bool(safe))\n                    docs = _PARSED.get(key)\n                    if docs is None:\n                        docs = _PARSED.setdefault(key, [n for n in yaml.parse(source, self) if n is not None])\n                    self.stages.extend(docs)"), ['C06.R8']),
        Mutant('neutral-include-rename-var', lambda r: merge_two(r), neutral=True),
    ]
