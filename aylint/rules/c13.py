"""C13 - !call / !bind pass arguments as Python would; function nodes merge by table."""
import ast

from .. import cfg as cfgmod
from ..mutate import Mutant, in_func, delete_stmt, in_module
from ..report import AnalysisError
from ..srcmodel import unparse, norm, walk_no_nested, calls_in, fold_const
from .common import is_method_call, cfg_of, get_kw, recv_of, name_defs
from . import mergerules as mr
from . import unitrules
from .tagtable import constructors
from . import tr
from . import mergetrace as mt
from ..fde import FDE, Obj, Opaque
from .common import fde_guard, PRIOS, thorough, node_obj

from .common import Guard  # noqa: E402

PROP = 'C13'
DECIDED = [
    'R1: CallNode and BindNode evaluation are equal modulo the final expression (target(*p, **kw_p, **kw) vs partial(target, *p, **kw_p, **kw)) and pass all three groups returned by _resolve_args in that order.',
    'R2: _resolve_args: the index->name table admits only POSITIONAL_ONLY / POSITIONAL_OR_KEYWORD parameters (all 5 inspect kinds evaluated); an index beyond the table raises; the contiguous positional prefix is taken by position (pop by counting index), not by insertion order.',
    'R3: in FunctionNode.on_merge_impl every path that takes the target from the newer node is guarded by the newer node having priority (ties to the newer) and clears the old arguments unless the newer node is told to merge.',
    'R4: FunctionNode deletes by default (class default and explicit constructor default delete=True); tag forms: !call:name / !bind:name pass the suffix as func and the data as args, the bare forms pass the scalar as func.',
    'R5: FunctionNode(func, args) evaluated on 11 argument shapes: target stored; arguments normalised to a mapping (positions for lists / tuples, position 0 for a scalar); a (func, args) pair with extra args and an empty target are rejected; delete defaults to True.',
    'R6: utils.import_name evaluated on 11 dotted names against a model of importable modules: import while modules are found (relative to what was found so far), attribute access afterwards; ImportError for what does not resolve, ValueError for an empty / dangling name.',
]
UNDECIDED = ['binding for arbitrary signatures and dynamic argument values as data;', 'import_name resolution.']
KINDS = ['POSITIONAL_ONLY', 'POSITIONAL_OR_KEYWORD', 'VAR_POSITIONAL', 'KEYWORD_ONLY', 'VAR_KEYWORD']


ENI = {'_resolve_args', '_require_safe', 'on_evaluate_impl', 'require_all_safe', 'import_name'}


def _prefix_signature(p, upto):
    """what a path does before resolving the arguments: facts and the sequence of calls / with-contexts"""
    evs = []
    for e in p.events[:upto]:
        if e.kind == 'call':
            evs.append('call ' + (e.callee or ''))
        elif e.kind in ('with_enter', 'with_exit'):
            evs.append(e.kind + ' ' + (e.callee or ''))
    return (tuple(sorted(set(p.facts))), tuple(evs))


def r1(repo, run):
    call = repo.func('CallNode.ayns.on_evaluate_impl')
    bind = repo.func('BindNode.ayns.on_evaluate_impl')
    sigs = {}
    for fi, kind in ((call, 'call'), (bind, 'bind')):
        paths = [p for p in tr.paths_of(repo, fi, no_inline=ENI, follow_exceptions=False) if p.status == 'return']
        if not paths:
            raise AnalysisError('%s: no returning path' % fi.qualname)
        sigs[kind] = set()
        probs = set()
        for p in paths:
            rs = [i for i, e in enumerate(p.events) if e.kind == 'call' and e.attr == '_resolve_args']
            c = p.ret.ast if p.ret is not None else None
            if len(rs) != 1:
                probs.add('arguments are not resolved once with FunctionNode._resolve_args on a returning path (returns %s)' % (p.ret.text[:60] if p.ret is not None else None))
                continue
            r = p.events[rs[0]]
            sigs[kind].add(_prefix_signature(p, rs[0]))
            R = r.result.text
            if not isinstance(c, ast.Call):
                probs.add('evaluation does not end in a call of the target / partial(target, ...) (returns %s)' % p.ret.text[:60])
                continue
            args = list(c.args)
            if kind == 'bind':
                if norm(c.func) not in ('partial', 'functools.partial') or not args:
                    probs.add('!bind does not evaluate to functools.partial(target, ...)')
                    continue
                target, args = norm(args[0]), args[1:]
            else:
                target = norm(c.func)
            got_pos = [('*' + norm(x.value)) if isinstance(x, ast.Starred) else norm(x) for x in args]
            got_kw = [norm(k.value) for k in c.keywords if k.arg is None]
            if got_pos != ['*%s[0]' % R] or got_kw != ['%s[1]' % R, '%s[2]' % R] or any(k.arg is not None for k in c.keywords):
                probs.add('target is not invoked with (*p, **kw_p, **kw) - the three groups of _resolve_args in order')
            elif not r.args or target != r.args[0].text:
                probs.add('the invoked callable (%s) is not the one the arguments were resolved against (%s)' % (target[:40], r.args[0].text[:40] if r.args else None))
            elif len(r.args) < 2 or not any(e.kind == 'call' and e.attr == 'on_evaluate_impl' and e.result is not None and e.result.text == r.args[1].text for e in p.events[:rs[0]]):
                probs.add('the arguments resolved are not the evaluated children of the node')
        for pr_ in sorted(probs):
            run.violation('C13.R1', fi, '%s evaluation' % fi.cls.name, pr_)
        if not probs:
            run.ok('C13.R1', fi, 'target(*p, **kw_p, **kw)' if kind == 'call' else 'partial(target, *p, **kw_p, **kw)', 'positional prefix, positions bound by name, keywords (%d paths)' % len(paths))
    if sigs['call'] != sigs['bind']:
        diff = sorted(sigs['call'] ^ sigs['bind'])[0]
        run.violation('C13.R1', bind, 'BindNode vs CallNode evaluation', '!call and !bind prepare target and arguments differently: %s' % (' / '.join(diff[1])[:200],))
    else:
        run.ok('C13.R1', bind, 'CallNode / BindNode on_evaluate_impl agree up to the final expression (%d path signatures)' % len(sigs['call']))


# ---- R2: _resolve_args evaluated on concrete signatures -----------------------------------------------------
PO, POK, VP, KO, VK = KINDS
SIGNATURES = [
    [('a', POK), ('b', POK), ('c', POK)],
    [('a', PO), ('b', POK), ('c', KO)],
    [('a', POK), ('args', VP), ('b', KO)],
    [('a', POK), ('kw', VK)],
    [('a', POK), ('b', POK), ('k', KO), ('kw', VK)],
    [('args', VP), ('kw', VK)],
]
ARGS = [
    {}, {'x': 1}, {0: 'v0'}, {0: 'v0', 1: 'v1'}, {0: 'v0', 2: 'v2'}, {1: 'v1'}, {2: 'v2', 'k': 'w'}, {0: 'v0', 'b': 'y'}, {3: 'v3'}, {1: 'v1', 0: 'v0'},
    {2: 'v2', 0: 'v0', 1: 'v1'}, {0: 'v0', 1: 'v1', 3: 'v3'},
]


def _expected(sig, args):
    ints = {k: v for k, v in args.items() if isinstance(k, int)}
    if not ints:
        return ([], {}, dict(args))
    kws = {k: v for k, v in args.items() if isinstance(k, str)}
    table = []
    for name, kind in sig:
        if kind not in (PO, POK):
            break
        table.append(name)
    unpack = []
    i = 0
    while i in ints:
        unpack.append(ints.pop(i))
        i += 1
    kwp = {}
    for idx, v in ints.items():
        if idx >= len(table):
            return 'ValueError'
        kwp[table[idx]] = v
    return (unpack, kwp, kws)


def r2(repo, run):
    """FunctionNode._resolve_args evaluated (finite-domain evaluator; inspect.signature replaced by a parameter table) on
    %d signatures x %d argument mappings against the binding Python itself would make"""
    fi = repo.func('FunctionNode._resolve_args')
    kinds = {k: ('ext', ('kind', k)) for k in KINDS}
    bad = []
    rows = 0
    sigs, argsets = SIGNATURES, ARGS
    if thorough():
        # every well-formed signature of up to 3 parameters (order of kinds as Python requires) x every argument mapping with up to
        # 3 keys out of {0, 1, 2, 3, 'a', 'k'}
        import itertools
        order = {PO: 0, POK: 1, VP: 2, KO: 3, VK: 4}
        sigs = []
        for n in range(0, 4):
            for ks in itertools.product(KINDS, repeat=n):
                if list(ks) != sorted(ks, key=lambda k: order[k]) or ks.count(VP) > 1 or ks.count(VK) > 1:
                    continue
                sigs.append([('abc'[i], k) for i, k in enumerate(ks)])
        keys = [0, 1, 2, 3, 'a', 'k']
        argsets = [{k: 'v%s' % k for k in sub} for n in range(0, 4) for sub in itertools.combinations(keys, n)]
        argsets += [{1: 'v1', 0: 'v0'}, {2: 'v2', 0: 'v0', 1: 'v1'}]
    EMPTY = ('kind', 'empty')
    for sig, args, with_defaults in [(s_, a_, d_) for s_ in sigs for a_ in argsets for d_ in (False, True)]:
        if True:
            # (with_defaults: every named parameter declares a default - what a gap in the positions is bound to does not depend on it:
            # `!bind f {1: x}` must leave parameter 0 open for the caller, not fill in its default)
            if with_defaults and not any(isinstance(k_, int) for k_ in args):
                continue
            params = {}
            for name, kind in sig:
                params[name] = Obj('param_' + name, 'object', kind=kinds[kind], default=('DEFAULT_' + name) if with_defaults and kind not in (VP, VK) else ('ext', EMPTY))
                params[name].f['name'] = name
            sigobj = Obj('sig', 'object', parameters=params)
            f = FDE(repo)
            f.externals = {'inspect.Parameter.' + k: v[1] for k, v in kinds.items()}
            f.externals.update({'inspect.Parameter.empty': EMPTY, 'inspect._empty': EMPTY, 'inspect.Signature.empty': EMPTY})
            f.extcalls = {'inspect.signature': lambda fn, sigobj=sigobj: sigobj}
            target = Obj('target', 'object')
            target.f['__code__'] = Obj('code', 'object', co_varnames=('self',) + tuple(n for n, _ in sig), co_argcount=1 + len([1 for _, k in sig if k in (PO, POK)]),
                                       co_posonlyargcount=len([1 for _, k in sig if k == PO]), co_kwonlyargcount=len([1 for _, k in sig if k == KO]))
            target.f['__func__'] = Opaque('underlying function')
            target.f['__self__'] = Opaque('receiver')
            target.f['__name__'] = 'target'
            f.extcalls['inspect.signature'] = lambda fn, sigobj=sigobj: sigobj
            r = fde_guard(lambda: f.call(fi, target, dict(args)))
            rows += 1
            exp = _expected(sig, dict(args))
            if exp == 'ValueError':
                got = r.raised
                okk = r.raised == 'ValueError'
            else:
                got = r.ret
                okk = r.raised is None and isinstance(r.ret, (tuple, list)) and len(r.ret) == 3 and list(r.ret[0]) == exp[0] and dict(r.ret[1]) == exp[1] and dict(r.ret[2]) == exp[2]
            if not okk:
                bad.append((['%s:%s%s' % (n, k, '=<default>' if with_defaults and k not in (VP, VK) else '') for n, k in sig], args, got if r.raised is None else 'raises ' + str(r.raised), exp))
    run.table('C13.R2', rows, '_resolve_args over signatures x argument mappings')
    if bad:
        sg, ar, got, exp = bad[0]
        run.violation('C13.R2', fi, '_resolve_args binding table', 'for def f(%s) and arguments %r the groups are %r; Python binds %r (only positional parameters have a position; the contiguous prefix goes by position; the rest by name; an index beyond the positional parameters raises ValueError)' % (', '.join(sg), ar, got, exp), witness=[str(b)[:300] for b in bad[:6]])
    else:
        run.ok('C13.R2', fi, '_resolve_args binding table (%d rows)' % rows, 'prefix by position, remaining indices by name of positional parameters only, out-of-range index raises')


def r3(repo, run):
    fi = repo.func('FunctionNode.ayns.on_merge_impl')
    paths = tr.paths_of(repo, fi, no_inline=set(mt.NI), follow_exceptions=True)
    n_store = 0
    verdicts = set()
    for p in paths:
        cons = mt.prio_constraints(p.facts)
        for i, e in enumerate(p.events):
            if e.kind == 'store' and e.target == 'self._func':
                n_store += 1
                cs = mt.prio_constraints(e.facts)
                newer_wins = bool(cs) and all(mt.consistent(cs, {'self': a, 'other': b}) <= (mt.P(b) >= mt.P(a)) for a in PRIOS for b in PRIOS)
                cleared = any(x.kind == 'call' and tr.is_call(x, attr='clear', recv='self') for x in p.events)
                merge_told = ('other.ayns.delete', False) in p.facts
                if not newer_wins:
                    verdicts.add(('bad', 'the target is taken from the newer node on a path that did not establish that the newer node has priority (ties to the newer)'))
                elif not cleared and not merge_told:
                    verdicts.add(('bad', 'the target changes but the old arguments are kept although the newer node was not told to merge'))
                else:
                    verdicts.add(('ok', 'target taken from the newer node: guarded by priority; arguments cleared unless other.ayns.delete is false'))
            if e.kind == 'call' and e.attr in ('_replace_self', '_replace_other') and e.recv is not None and e.recv.text == 'self':
                cs = mt.prio_constraints(e.facts)
                want_newer = e.attr == '_replace_self'
                okk = bool(cs) and all((not mt.consistent(cs, {'self': a, 'other': b})) or ((mt.P(b) >= mt.P(a)) == want_newer) for a in PRIOS for b in PRIOS)
                if okk:
                    verdicts.add(('ok', 'self.%s(other) exactly when the %s node has priority (newer wins ties)' % (e.attr, 'newer' if want_newer else 'older')))
                else:
                    verdicts.add(('bad', 'function-node merge must let the newer node win on equal priority: self.%s(other) runs under %s' % (e.attr, tr.describe(p, 4))))
        if p.status == 'return' and p.ret is not None and p.ret.text != 'self':
            if p.ret.text != 'super().ayns.on_merge_impl(%s, other)' % fi.params()[1]:
                verdicts.add(('bad', 'arguments are not merged by the mapping merge of the base class (returns %s)' % p.ret.text[:60]))
            else:
                verdicts.add(('ok', 'falls through to super().ayns.on_merge_impl(%s, other)' % fi.params()[1]))
    if n_store < 2:
        raise AnalysisError('FunctionNode.on_merge_impl: expected assignments of self._func on the string and the function-node branch, found %d' % n_store)
    for v in sorted(verdicts):
        (run.ok if v[0] == 'ok' else run.violation)('C13.R3', fi, 'FunctionNode merge', v[1])


def r3b(repo, run):
    """FunctionNode.ayns.on_merge_impl evaluated (finite-domain evaluator) for two function nodes over (same / other target) x priorities x
    delete flag of the newer node: a losing node with another target is ignored entirely (its arguments are not merged into the kept
    target); a winning one replaces the target, clears the old arguments unless told to merge, then the arguments are merged"""
    fi = repo.func('FunctionNode.ayns.on_merge_impl')
    bad = []
    rows = 0
    # targets are dotted names (from YAML) or the callables themselves (nodes built from Python): two different callables that share
    # their module and name (methods of two classes, closures of one factory) are different targets
    fnA = Obj('A.create', 'function', __module__='pkg.models', __name__='create', __qualname__='A.create')
    fnB = Obj('B.create', 'function', __module__='pkg.models', __name__='create', __qualname__='B.create')
    for same, F, G in ((True, 'f', 'f'), (False, 'f', 'g'), (True, fnA, fnA), (False, fnA, fnB)):
        for a in PRIOS:
            for b in PRIOS:
                for d in (None, True, False):
                    me = node_obj('self', 'CallNode', _priority=a, _func=F, _children={})
                    ot = node_obj('other', 'CallNode', _priority=b, _func=G, _delete=d, _children={})
                    log = []

                    def stub(name, recv, args, kwargs, log=log):
                        log.append((name, getattr(recv, 'name', None)))
                        return recv
                    f = FDE(repo, stubs={'on_merge_impl', 'clear', '_replace_self', '_replace_other', '_maybe_promote', '_propagate_implicit_values', '_propagate_priority'}, stub=stub)
                    r = fde_guard(lambda: f.call(fi, me, 'p', ot))
                    rows += 1
                    if r.raised:
                        raise AnalysisError('FunctionNode.on_merge_impl: not evaluable (%s)' % r.raised)
                    merged = ('on_merge_impl', 'self') in log
                    cleared = ('clear', 'self') in log
                    newer_wins = mt.P(b) >= mt.P(a)
                    eff_delete = d if d is not None else True          # function nodes delete by default
                    if same:
                        want = dict(func=F, merged=True)
                        got = dict(func=me.f.get('_func'), merged=merged)
                    elif newer_wins:
                        want = dict(func=G, merged=True, cleared=bool(eff_delete))
                        got = dict(func=me.f.get('_func'), merged=merged, cleared=cleared)
                    else:
                        want = dict(func=F, merged=False, cleared=False)
                        got = dict(func=me.f.get('_func'), merged=merged, cleared=cleared)
                    if got != want:
                        bad.append((('same target' if same else 'other target') + ('' if isinstance(F, str) else ' (callables sharing module and name)'), a, b, d, got, want))
    # a plain mapping (no target of its own) merged onto a function node: only arguments change
    for a in PRIOS:
        for b in PRIOS:
            me = node_obj('self', 'CallNode', _priority=a, _func='f', _children={})
            ot = node_obj('other', 'ConfigDict', _priority=b, _children={})
            ot.missing.add('_func')
            log = []

            def stub2(name, recv, args, kwargs, log=log):
                log.append((name, getattr(recv, 'name', None)))
                return recv
            f = FDE(repo, stubs={'on_merge_impl', 'clear', '_replace_self', '_replace_other', '_maybe_promote', '_propagate_implicit_values', '_propagate_priority'}, stub=stub2)
            r = fde_guard(lambda: f.call(fi, me, 'p', ot))
            rows += 1
            got = dict(func=me.f.get('_func'), merged=('on_merge_impl', 'self') in log, cleared=('clear', 'self') in log, raised=r.raised)
            want = dict(func='f', merged=True, cleared=False, raised=None)
            if got != want:
                bad.append(('plain mapping onto a function node', a, b, None, got, want))
    # a string merged onto a function node names a new target: it is adopted (old arguments dropped) when the string wins
    for a in PRIOS:
        for b in PRIOS:
            me = node_obj('self', 'CallNode', _priority=a, _func='f', _children={'x': node_obj('x')})
            ot = node_obj('other', 'XRefNode', _priority=b)
            log = []

            def stub3(name, recv, args, kwargs, log=log):
                log.append((name, getattr(recv, 'name', None)))
                return recv
            f = FDE(repo, stubs={'on_merge_impl', 'clear', '_replace_self', '_replace_other', '_maybe_promote', '_propagate_implicit_values', '_propagate_priority'}, stub=stub3)
            r = fde_guard(lambda: f.call(fi, me, 'p', ot))
            rows += 1
            wins = mt.P(b) >= mt.P(a)
            got = dict(func='other' if me.f.get('_func') is ot else me.f.get('_func'), cleared=('clear', 'self') in log, raised=r.raised, ret=getattr(r.ret, 'name', r.ret))
            want = dict(func='other' if wins else 'f', cleared=wins, raised=None, ret='self')
            if got != want:
                bad.append(('a string (new target name) onto a function node', a, b, None, got, want))
    run.table('C13.R3', rows, 'function-node merge over (target same/other/none/string) x priorities x delete flag')
    if bad:
        t, a, b, d, got, want = bad[0]
        run.violation('C13.R3', fi, 'function-node merge table', '%s, older priority %r, newer priority %r, newer delete=%r: %s; expected %s (a losing node with another target must be ignored entirely - its arguments would be passed to the kept target)' % (t, a, b, d, got, want), witness=[str(x) for x in bad[:5]])
    else:
        run.ok('C13.R3', fi, 'function-node merge table (%d rows)' % rows, 'loser with another target ignored; winner replaces target, clears unless merge, then arguments merged')


def r4(repo, run):
    owner, e = repo.class_attr('FunctionNode', '_default_delete')
    ok, v = fold_const(repo, e, owner) if e is not None else (False, None)
    if not ok or v is not True or owner != 'FunctionNode':
        run.violation('C13.R4', ('awesomeyaml/nodes/function.py', 0, 'FunctionNode'), 'FunctionNode._default_delete', 'function nodes do not replace arguments by default (class default %r from %s)' % (v, owner))
    else:
        run.ok('C13.R4', ('awesomeyaml/nodes/function.py', 0, 'FunctionNode'), 'FunctionNode._default_delete = True')
    init = repo.func('FunctionNode.__init__')
    ip = [p for p in tr.paths_of(repo, init, follow_exceptions=False, no_inline={'__init__'}) if p.status == 'return']
    if not ip:
        raise AnalysisError('FunctionNode.__init__: no completing path')
    okd = True
    for p in ip:
        sup = [i for i, e in enumerate(p.events) if e.kind == 'call' and e.callee == 'super().__init__']
        if len(sup) != 1:
            raise AnalysisError('FunctionNode.__init__: super().__init__ call not recognised')
        before = p.events[:sup[0]]
        sd = any(tr.is_call(e, attr='setdefault', recv='kwargs') and len(e.args) == 2 and e.args[0].const == 'delete' and e.args[1].const is True for e in before)
        st = any(e.kind == 'store' and e.target == "kwargs['delete']" and e.value is not None and e.value.const is True for e in before) and tr.fact(p, "'delete' in kwargs", False)
        given = tr.fact(p, "'delete' in kwargs", True)
        spread = any(k.startswith('**') for k in p.events[sup[0]].kw)
        if not (sd or st or given) or not spread:
            okd = False
    if not okd:
        run.violation('C13.R4', init, "kwargs.setdefault('delete', True)", 'a function node no longer carries an explicit delete=True by default: below a !merge ancestor it inherits delete=False and merges / keeps old arguments although it was not told to')
    else:
        run.ok('C13.R4', init, "kwargs.setdefault('delete', True) before super().__init__")
    table = constructors(repo)
    for tag, cls, multi in (('!call:', 'CallNode', True), ('!call', 'CallNode', False), ('!bind:', 'BindNode', True), ('!bind', 'BindNode', False)):
        e = table.get(tag)
        if e is None or e.make is None:
            run.violation('C13.R4', ('awesomeyaml/yaml.py', 0, '<module>'), tag, 'tag %s not registered' % tag)
            continue
        probs = []
        if e.node_type != cls:
            probs.append('builds %s' % e.node_type)
        if e.multi != multi:
            probs.append('registered as %s constructor' % ('multi' if e.multi else 'plain'))
        if multi:
            if e.data_arg_name != 'args' or 'func' not in e.kwargs_val:
                probs.append('suffix/data not passed as func/args (func=%s, data as %s)' % (e.kwargs.get('func'), e.data_arg_name))
            else:
                sfx = e.fi.params()[1]
                for suffix, want in (('pkg.f', 'pkg.f'), ('pkg.mod.f:meta', 'pkg.mod.f')):
                    f = FDE(repo)
                    got = fde_guard(lambda: f._ev(e.kwargs_val['func'], {sfx: suffix}, e.fi))
                    if got != want:
                        probs.append('target name is not the tag suffix up to the first colon (%r gives %r)' % (suffix, got))
        else:
            if e.data_arg_name != 'func':
                probs.append('scalar not passed as func (data as %s)' % e.data_arg_name)
        if probs:
            run.violation('C13.R4', e.fi, '%s -> %s' % (tag, unparse(e.make)), '; '.join(probs), node=e.make)
        else:
            run.ok('C13.R4', (e.fi.file, e.make.lineno, e.fi.qualname), '%s -> %s(%s)' % (tag, cls, 'func=suffix, args=data' if multi else 'func=data'))


def check(repo, run, tier):
    g = Guard()
    g(r1, repo, run)
    g(r2, repo, run)
    g(r3, repo, run)
    g(r3b, repo, run)
    g(r4, repo, run)
    g(unitrules.function_node_init, repo, run, 'C13.R5')
    g(unitrules.suffix_constructors, repo, run, 'C13.R4')
    g(unitrules.tag_spec, repo, run, 'C13.R4', ['!call', '!call:', '!bind', '!bind:'])
    g(unitrules.import_name_table, repo, run, 'C13.R6')
    g(unitrules.relative_import_calls, repo, run, 'C13.R6')
    g(unitrules.small_node_tables, repo, run, 'C13.R6', 'import')
    g(unitrules.small_node_tables, repo, run, 'C13.R3', 'function-bool')
    g.done()


def _drop_package(r):
    import re
    fi = r.func('yaml._import_constructor')
    m = re.search(r"importlib\.import_module\(('[^']+'), package=[^)]*\)", fi.module.text)
    if m is None:
        from ..mutate import NotApplicable
        raise NotApplicable('import_module(..., package=...) not found')
    return {fi.module.relpath: fi.module.text.replace(m.group(0), 'importlib.import_module(%s)' % m.group(1), 1)}


def mutants(repo):
    return [
        Mutant('import-name-skips-false-objects', lambda r: in_func(r, 'utils.import_name', "        if current is not None:\n            try:\n                current = getattr(current, element)", "        if current:\n            try:\n                current = getattr(current, element)"), ['C13.R6']),
        Mutant('relative-import-without-package', lambda r: _drop_package(r), ['C13.R6']),
        Mutant('import-node-evaluates-to-nothing', lambda r: in_func(r, 'ImportNode.ayns.on_evaluate_impl', "return import_name(str(self))", "import_name(str(self))"), ['C13.R6']),
        Mutant('function-node-truth-lost', lambda r: in_func(r, 'FunctionNode.__bool__', "return bool(self._func)", "bool(self._func)"), ['C13.R3']),
        Mutant('attribute-lookup-skipped', lambda r: in_func(r, 'utils.import_name', "        if current is not None:\n            try:\n                current = getattr(current, element)", "        if current is None:\n            try:\n                current = getattr(current, element)"), ['C13.R6']),
        Mutant('suffix-without-metadata-rejected', lambda r: in_func(r, 'yaml._bind_constructor', "pad_with_none(*tag_suffix.split(':', maxsplit=1), minlen=2)", "pad_with_none(*tag_suffix.split(':', maxsplit=1))"), ['C13.R4']),
        Mutant('function-args-not-normalised', lambda r: in_func(r, 'FunctionNode.__init__', "if args is not None and not isinstance(args, dict):", "if args is None and not isinstance(args, dict):"), ['C13.R5']),
        Mutant('bind-returns-target-when-empty', lambda r: in_func(r, 'BindNode.ayns.on_evaluate_impl', "        return partial(_func, *p, **kw_p, **kw)", "        if not p and not kw_p and not kw:\n            return _func\n        return partial(_func, *p, **kw_p, **kw)"), ['C13.R1']),
        Mutant('call-drops-positions-bound-by-name', lambda r: in_func(r, 'CallNode.ayns.on_evaluate_impl', "return _func(*p, **kw_p, **kw)", "return _func(*p, **kw)"), ['C13.R1']),
        Mutant('bind-skips-strict-context', lambda r: in_func(r, 'BindNode.ayns.on_evaluate_impl', "        with ctx.require_all_safe(self, path):\n            args = ", "        if True:\n            args = "), ['C13.R1']),
        Mutant('F10-reverted-kind-table', lambda r: in_func(r, 'FunctionNode._resolve_args', "if p.kind not in (inspect.Parameter.POSITIONAL_ONLY, inspect.Parameter.POSITIONAL_OR_KEYWORD):", "if p.kind == inspect.Parameter.VAR_POSITIONAL:"), ['C13.R2']),
        Mutant('index-bound-off-by-one', lambda r: in_func(r, 'FunctionNode._resolve_args', "if idx >= len(idx_to_name):", "if idx > len(idx_to_name):"), ['C13.R2']),
        Mutant('prefix-by-insertion-order', lambda r: in_func(r, 'FunctionNode._resolve_args',
               "        idx = 0\n        unpack = []\n        while True:\n            if idx not in positional_args:\n                break\n            unpack.append(positional_args.pop(idx))\n            idx += 1\n",
               "        n = 0\n        while n in positional_args:\n            n += 1\n        unpack = [v for _, v in list(positional_args.items())[:n]]\n        positional_args = dict(list(positional_args.items())[n:])\n"), ['C13.R2']),
        Mutant('targets-compared-by-name', lambda r: in_func(r, 'FunctionNode.ayns.on_merge_impl', "new_func = (self._func != other._func)", "new_func = (getattr(self._func, '__name__', self._func) != getattr(other._func, '__name__', other._func))"), ['C13.R3']),
        Mutant('gaps-filled-with-declared-defaults', lambda r: in_func(r, 'FunctionNode._resolve_args', "            if idx not in positional_args:\n                break", "            if idx not in positional_args:\n                if idx < len(params) and idx < max(positional_args, default=-1) and params[idx].default is not inspect.Parameter.empty:\n                    unpack.append(params[idx].default)\n                    idx += 1\n                    continue\n                break"), ['C13.R2']),
        Mutant('str-target-keeps-arguments', lambda r: in_func(r, 'FunctionNode.ayns.on_merge_impl', "                self._func = other\n                self.clear()\n", "                self._func = other\n"), ['C13.R3']),
        Mutant('target-change-without-priority', lambda r: in_func(r, 'FunctionNode.ayns.on_merge_impl', "            if not other.ayns.has_priority_over(self, if_equal=True):\n                self._replace_other(other)\n                return self\n", ""), ['C13.R3']),
        Mutant('setdefault-delete-removed', lambda r: in_func(r, 'FunctionNode.__init__', "        kwargs.setdefault('delete', True)\n", ""), ['C13.R4']),
        Mutant('call-tag-data-as-func', lambda r: in_func(r, 'yaml._call_constructor', "data_arg_name='args'", "data_arg_name='func'"), ['C13.R4']),
        Mutant('neutral-kind-in-set', lambda r: in_func(r, 'FunctionNode._resolve_args', "if p.kind not in (inspect.Parameter.POSITIONAL_ONLY, inspect.Parameter.POSITIONAL_OR_KEYWORD):", "if p.kind in (inspect.Parameter.VAR_POSITIONAL, inspect.Parameter.KEYWORD_ONLY, inspect.Parameter.VAR_KEYWORD):"), neutral=True),
    ]
