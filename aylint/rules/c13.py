"""C13 - !call / !bind pass arguments as Python would; function nodes merge by table."""
import ast

from .. import cfg as cfgmod
from ..mutate import Mutant, in_func, delete_stmt, in_module
from ..report import AnalysisError
from ..srcmodel import unparse, norm, walk_no_nested, calls_in, fold_const
from .common import is_method_call, cfg_of, get_kw, recv_of, name_defs
from . import mergerules as mr
from .tagtable import constructors

PROP = 'C13'
DECIDED = [
    'R1: CallNode and BindNode evaluation are equal modulo the final expression (target(*p, **kw_p, **kw) vs partial(target, *p, **kw_p, **kw)) and pass all three groups returned by _resolve_args in that order.',
    'R2: _resolve_args: the index->name table admits only POSITIONAL_ONLY / POSITIONAL_OR_KEYWORD parameters (all 5 inspect kinds evaluated); an index beyond the table raises; the contiguous positional prefix is taken by position (pop by counting index), not by insertion order.',
    'R3: in FunctionNode.on_merge_impl every path that takes the target from the newer node is guarded by the newer node having priority (ties to the newer) and clears the old arguments unless the newer node is told to merge.',
    'R4: FunctionNode deletes by default (class default and explicit constructor default delete=True); tag forms: !call:name / !bind:name pass the suffix as func and the data as args, the bare forms pass the scalar as func.',
]
UNDECIDED = ['binding for arbitrary signatures and dynamic argument values as data;', 'import_name resolution.']
KINDS = ['POSITIONAL_ONLY', 'POSITIONAL_OR_KEYWORD', 'VAR_POSITIONAL', 'KEYWORD_ONLY', 'VAR_KEYWORD']


def _body_norm(fi):
    return [norm(s) for s in fi.node.body if not (isinstance(s, ast.Expr) and isinstance(s.value, ast.Constant))]


def r1(repo, run):
    call = repo.func('CallNode.ayns.on_evaluate_impl')
    bind = repo.func('BindNode.ayns.on_evaluate_impl')
    a, b = _body_norm(call), _body_norm(bind)
    if a[:-1] != b[:-1]:
        diff = [(x, y) for x, y in zip(a, b) if x != y] or [(a, b)]
        run.violation('C13.R1', bind, 'BindNode vs CallNode evaluation', '!call and !bind prepare target and arguments differently: %s' % (diff[0],))
    else:
        run.ok('C13.R1', bind, 'CallNode / BindNode on_evaluate_impl agree up to the final expression (%d statements)' % (len(a) - 1))
    for fi, kind in ((call, 'call'), (bind, 'bind')):
        last = fi.node.body[-1]
        if not isinstance(last, ast.Return) or not isinstance(last.value, ast.Call):
            run.violation('C13.R1', fi, norm(last), 'evaluation does not end in a call of the target / partial(target, ...)')
            continue
        c = last.value
        args = list(c.args)
        if kind == 'bind':
            if norm(c.func) not in ('partial', 'functools.partial') or not args:
                run.violation('C13.R1', fi, norm(last), '!bind does not evaluate to functools.partial(target, ...)', node=last)
                continue
            target, args = args[0], args[1:]
        else:
            target = c.func
        # find the unpacking of _resolve_args in this function or the shared helper
        src_fi = fi
        ups = [s for s in walk_no_nested(fi.node) if isinstance(s, ast.Assign) and isinstance(s.value, ast.Call) and is_method_call(s.value, member='_resolve_args')]
        if ups:
            names = [norm(e) for e in ups[0].targets[0].elts]
            want_pos = ['*' + names[0]]
            want_kw = [names[1], names[2]]
            got_pos = [('*' + norm(x.value)) if isinstance(x, ast.Starred) else norm(x) for x in args]
            got_kw = [norm(k.value) for k in c.keywords if k.arg is None]
            if got_pos != want_pos or got_kw != want_kw or any(k.arg is not None for k in c.keywords):
                run.violation('C13.R1', fi, norm(last), 'target is not invoked with (*%s, **%s, **%s) - the three groups of _resolve_args in order' % tuple(names), node=last)
            elif norm(target) != norm(ups[0].value.args[0]):
                run.violation('C13.R1', fi, norm(last), 'the invoked callable (%s) is not the one the arguments were resolved against (%s)' % (norm(target), norm(ups[0].value.args[0])), node=last)
            else:
                run.ok('C13.R1', (fi.file, last.lineno, fi.qualname), norm(last), 'positional prefix, positions bound by name, keywords')
        else:
            run.info('C13.R1', fi, norm(last), 'arguments resolved in a shared helper; sibling agreement holds by construction')


def _admits(test_break, kind):
    """does the loop admit a parameter of `kind`?  test_break is the condition under which the loop breaks"""
    def ev(e):
        if isinstance(e, ast.BoolOp):
            vs = [ev(v) for v in e.values]
            return all(vs) if isinstance(e.op, ast.And) else any(vs)
        if isinstance(e, ast.UnaryOp) and isinstance(e.op, ast.Not):
            return not ev(e.operand)
        if isinstance(e, ast.Compare) and len(e.ops) == 1 and norm(e.left).endswith('.kind'):
            op, r = e.ops[0], e.comparators[0]
            ks = [norm(x).split('.')[-1] for x in (r.elts if isinstance(r, (ast.Tuple, ast.List, ast.Set)) else [r])]
            for k in ks:
                if k not in KINDS:
                    raise AnalysisError('unknown parameter kind %s' % k)
            if isinstance(op, (ast.Eq, ast.Is)):
                return kind == ks[0]
            if isinstance(op, (ast.NotEq, ast.IsNot)):
                return kind != ks[0]
            if isinstance(op, ast.In):
                return kind in ks
            if isinstance(op, ast.NotIn):
                return kind not in ks
        raise AnalysisError('_resolve_args: break condition %s outside the evaluable fragment' % norm(e))
    return not ev(test_break)


def r2(repo, run):
    fi = repo.func('FunctionNode._resolve_args')
    loops = [s for s in walk_no_nested(fi.node) if isinstance(s, ast.For) and any(isinstance(c.func, ast.Attribute) and c.func.attr == 'append' and norm(c.func.value) == 'idx_to_name' for c in calls_in(s))]
    if len(loops) != 1:
        raise AnalysisError('_resolve_args: index->name loop not recognised')
    lp = loops[0]
    brk = [s for s in lp.body if isinstance(s, ast.If) and any(isinstance(b, (ast.Break, ast.Continue)) for b in s.body)]
    if len(brk) != 1:
        raise AnalysisError('_resolve_args: break condition of the index->name loop not recognised')
    admitted = [k for k in KINDS if _admits(brk[0].test, k)]
    run.table('C13.R2', 5, 'inspect.Parameter kinds admitted to the index->name table')
    if admitted != ['POSITIONAL_ONLY', 'POSITIONAL_OR_KEYWORD']:
        run.violation('C13.R2', fi, 'if %s: break' % norm(brk[0].test), 'integer argument keys can be bound to parameters of kind %s (only positional parameters have a position): e.g. {1: v} for def g(a=0, **kw) is passed as kw=v' % [k for k in admitted if k not in ('POSITIONAL_ONLY', 'POSITIONAL_OR_KEYWORD')] if len(admitted) > 2 else 'positional parameters of kind %s are not admitted' % [k for k in ('POSITIONAL_ONLY', 'POSITIONAL_OR_KEYWORD') if k not in admitted], node=brk[0])
    else:
        run.ok('C13.R2', (fi.file, brk[0].lineno, fi.qualname), 'if %s: break' % norm(brk[0].test)[:100], 'admits exactly POSITIONAL_ONLY / POSITIONAL_OR_KEYWORD')
    rz = [s for s in ast.walk(fi.node) if isinstance(s, ast.If) and any(isinstance(b, ast.Raise) for b in s.body) and 'len(idx_to_name)' in norm(s.test)]
    if not rz or norm(rz[0].test) not in ('idx >= len(idx_to_name)', 'len(idx_to_name) <= idx', 'not idx < len(idx_to_name)'):
        run.violation('C13.R2', fi, norm(rz[0].test) if rz else 'index bound check', 'an index beyond the positional parameters is not rejected')
    else:
        run.ok('C13.R2', (fi.file, rz[0].lineno, fi.qualname), 'if %s: raise' % norm(rz[0].test))
    # positional prefix by position
    wl = [s for s in walk_no_nested(fi.node) if isinstance(s, ast.While)]
    ok = False
    how = ''
    for w in wl:
        pops = [c for c in calls_in(w) if is_method_call(c, recv='positional_args', member='pop') and c.args]
        incr = [s for s in w.body if isinstance(s, ast.AugAssign) and isinstance(s.op, ast.Add) and isinstance(s.value, ast.Constant) and s.value.value == 1]
        if pops and incr and norm(pops[0].args[0]) == norm(incr[0].target):
            appended = [c for c in calls_in(w) if isinstance(c.func, ast.Attribute) and c.func.attr == 'append' and any(p is x for p in pops for x in ast.walk(c))]
            init = [d for d in name_defs(fi, norm(incr[0].target)) if d[0] == 'assign' and d[2].lineno < w.lineno]
            if appended and init and norm(init[-1][1]) == '0':
                ok = True
                how = 'unpack.append(positional_args.pop(%s)) for %s = 0, 1, 2, ... while present' % (norm(incr[0].target), norm(incr[0].target))
    if ok:
        run.ok('C13.R2', (fi.file, wl[0].lineno, fi.qualname), how, 'contiguous positional prefix taken by position')
    else:
        from .common import derives_from
        sl = [s for s in walk_no_nested(fi.node) if isinstance(s, ast.Assign) and norm(s.targets[0]) == 'unpack' and
              derives_from(fi, s.value, lambda n: isinstance(n, ast.Call) and isinstance(n.func, ast.Attribute) and n.func.attr in ('items', 'values'), depth=3)
              and any(isinstance(x, ast.Slice) for x in ast.walk(s.value))]
        if sl:
            run.violation('C13.R2', fi, norm(sl[0]), 'the positional prefix is taken from the argument mapping in insertion order (slice of items/values), not by position: {0: a, 2: c} merged with {1: b} calls f(a, c, b)', node=sl[0])
        else:
            raise AnalysisError('_resolve_args: construction of the positional prefix not recognised')


def r3(repo, run):
    fi = repo.func('FunctionNode.ayns.on_merge_impl')
    g = cfg_of(fi)
    assigns = [n for n in g.stmt_nodes() if n.kind == 'stmt' and isinstance(n.ast, ast.Assign) and norm(n.ast.targets[0]) == 'self._func']
    if len(assigns) < 2:
        raise AnalysisError('FunctionNode.on_merge_impl: expected two assignments of self._func (string / function-node branch), found %d' % len(assigns))
    paths = cfgmod.enumerate_paths(g, follow_exc=False)
    for an in assigns:
        through = [p for p in paths if any(n is an for n, _ in p)]
        bad = None
        for p in through:
            facts = set()
            cleared = False
            for n, label in p:
                if n.kind == 'test' and label in ('true', 'false'):
                    facts |= cfgmod.cond_facts(n.ast, label == 'true')
                if any(is_method_call(c, recv='self', member='clear', ayns=False) for c in n.calls()):
                    cleared = True
            prio = ('other.ayns.has_priority_over(self, if_equal=True)', True) in facts
            merge_told = ('other.ayns.delete', False) in facts
            if not prio:
                bad = 'the target is taken from the newer node on a path that did not establish that the newer node has priority (ties to the newer)'
            elif not cleared and not merge_told:
                bad = 'the target changes but the old arguments are kept although the newer node was not told to merge'
        if bad:
            run.violation('C13.R3', fi, norm(an.ast), bad, node=an.ast)
        else:
            run.ok('C13.R3', (fi.file, an.ast.lineno, fi.qualname), norm(an.ast), 'guarded by priority; arguments cleared unless other.ayns.delete is false (%d paths)' % len(through))
    mr.function_node_priority_calls(repo, run, 'C13.R3')
    # same-target / no new target falls through to the mapping merge
    last = fi.node.body[-1]
    if norm(last) != 'return super().ayns.on_merge_impl(%s, other)' % fi.params()[1]:
        run.violation('C13.R3', fi, norm(last), 'arguments are not merged by the mapping merge of the base class')
    else:
        run.ok('C13.R3', (fi.file, last.lineno, fi.qualname), norm(last))


def r4(repo, run):
    owner, e = repo.class_attr('FunctionNode', '_default_delete')
    ok, v = fold_const(repo, e, owner) if e is not None else (False, None)
    if not ok or v is not True or owner != 'FunctionNode':
        run.violation('C13.R4', ('awesomeyaml/nodes/function.py', 0, 'FunctionNode'), 'FunctionNode._default_delete', 'function nodes do not replace arguments by default (class default %r from %s)' % (v, owner))
    else:
        run.ok('C13.R4', ('awesomeyaml/nodes/function.py', 0, 'FunctionNode'), 'FunctionNode._default_delete = True')
    init = repo.func('FunctionNode.__init__')
    sd = [c for c in calls_in(init.node) if is_method_call(c, recv='kwargs', member='setdefault') and c.args and norm(c.args[0]) == "'delete'"]
    sup = [c for c in calls_in(init.node) if norm(c.func) == 'super().__init__']
    if not sd or norm(sd[0].args[1]) != 'True' or not sup or sd[0].lineno > sup[0].lineno:
        run.violation('C13.R4', init, "kwargs.setdefault('delete', True)", 'a function node no longer carries an explicit delete=True by default: below a !merge ancestor it inherits delete=False and merges / keeps old arguments although it was not told to')
    else:
        run.ok('C13.R4', (init.file, sd[0].lineno, init.qualname), "kwargs.setdefault('delete', True) before super().__init__")
    table = constructors(repo)
    for tag, cls, multi in (('!call:', 'CallNode', True), ('!call', 'CallNode', False), ('!bind:', 'BindNode', True), ('!bind', 'BindNode', False)):
        e = table.get(tag)
        if e is None or e.make is None:
            run.violation('C13.R4', ('awesomeyaml/yaml.py', 0, '<module>'), tag, 'tag %s not registered' % tag)
            continue
        probs = []
        if e.node_type != cls:
            probs.append('builds %s' % e.node_type)
        if e.multi != multi:
            probs.append('registered as %s constructor' % ('multi' if e.multi else 'plain'))
        if multi:
            if e.data_arg_name != 'args' or e.kwargs.get('func') != ('<expr>', 'target_f_name'):
                probs.append('suffix/data not passed as func/args (func=%s, data as %s)' % (e.kwargs.get('func'), e.data_arg_name))
            sp = [s for s in walk_no_nested(e.fi.node) if isinstance(s, ast.Assign) and 'target_f_name' in norm(s.targets[0])]
            if not sp or "tag_suffix.split(':', maxsplit=1)" not in norm(sp[0].value):
                probs.append('target name is not the tag suffix up to the first colon')
        else:
            if e.data_arg_name != 'func':
                probs.append('scalar not passed as func (data as %s)' % e.data_arg_name)
        if probs:
            run.violation('C13.R4', e.fi, '%s -> %s' % (tag, unparse(e.make)), '; '.join(probs), node=e.make)
        else:
            run.ok('C13.R4', (e.fi.file, e.make.lineno, e.fi.qualname), '%s -> %s(%s)' % (tag, cls, 'func=suffix, args=data' if multi else 'func=data'))


def check(repo, run, tier):
    r1(repo, run)
    r2(repo, run)
    r3(repo, run)
    r4(repo, run)


def mutants(repo):
    return [
        Mutant('bind-returns-target-when-empty', lambda r: in_func(r, 'BindNode.ayns.on_evaluate_impl', "        return partial(_func, *p, **kw_p, **kw)", "        if not p and not kw_p and not kw:\n            return _func\n        return partial(_func, *p, **kw_p, **kw)"), ['C13.R1']),
        Mutant('call-drops-positions-bound-by-name', lambda r: in_func(r, 'CallNode.ayns.on_evaluate_impl', "return _func(*p, **kw_p, **kw)", "return _func(*p, **kw)"), ['C13.R1']),
        Mutant('bind-skips-strict-context', lambda r: in_func(r, 'BindNode.ayns.on_evaluate_impl', "        with ctx.require_all_safe(self, path):\n            args = ", "        if True:\n            args = "), ['C13.R1']),
        Mutant('F10-reverted-kind-table', lambda r: in_func(r, 'FunctionNode._resolve_args', "if p.kind not in (inspect.Parameter.POSITIONAL_ONLY, inspect.Parameter.POSITIONAL_OR_KEYWORD):", "if p.kind == inspect.Parameter.VAR_POSITIONAL:"), ['C13.R2']),
        Mutant('index-bound-off-by-one', lambda r: in_func(r, 'FunctionNode._resolve_args', "if idx >= len(idx_to_name):", "if idx > len(idx_to_name):"), ['C13.R2']),
        Mutant('prefix-by-insertion-order', lambda r: in_func(r, 'FunctionNode._resolve_args',
               "        idx = 0\n        unpack = []\n        while True:\n            if idx not in positional_args:\n                break\n            unpack.append(positional_args.pop(idx))\n            idx += 1\n",
               "        n = 0\n        while n in positional_args:\n            n += 1\n        unpack = [v for _, v in list(positional_args.items())[:n]]\n        positional_args = dict(list(positional_args.items())[n:])\n"), ['C13.R2']),
        Mutant('str-target-keeps-arguments', lambda r: in_func(r, 'FunctionNode.ayns.on_merge_impl', "                self._func = other\n                self.clear()\n", "                self._func = other\n"), ['C13.R3']),
        Mutant('target-change-without-priority', lambda r: in_func(r, 'FunctionNode.ayns.on_merge_impl', "            if not other.ayns.has_priority_over(self, if_equal=True):\n                self._replace_other(other)\n                return self\n", ""), ['C13.R3']),
        Mutant('setdefault-delete-removed', lambda r: in_func(r, 'FunctionNode.__init__', "        kwargs.setdefault('delete', True)\n", ""), ['C13.R4']),
        Mutant('call-tag-data-as-func', lambda r: in_func(r, 'yaml._call_constructor', "data_arg_name='args'", "data_arg_name='func'"), ['C13.R4']),
        Mutant('neutral-kind-in-set', lambda r: in_func(r, 'FunctionNode._resolve_args', "if p.kind not in (inspect.Parameter.POSITIONAL_ONLY, inspect.Parameter.POSITIONAL_OR_KEYWORD):", "if p.kind in (inspect.Parameter.VAR_POSITIONAL, inspect.Parameter.KEYWORD_ONLY, inspect.Parameter.VAR_KEYWORD):"), neutral=True),
    ]
