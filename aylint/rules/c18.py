"""C18 - dump then parse gives a tree that merges and evaluates the same (structural clauses only)."""
import ast

from ..fde import FDE, Obj
from ..mutate import Mutant, in_func, delete_stmt, in_module
from ..report import AnalysisError
from ..srcmodel import unparse, norm, walk_no_nested, calls_in, fold_const
from .common import is_method_call, get_kw, node_obj, fde_guard, F3, parent_chain
from .tagtable import constructors
from . import tr
from . import unitrules
from ..fde import Opaque

from .common import Guard, thorough  # noqa: E402

PROP = 'C18'
DECIDED = [
    'R1: the writer\'s tag vocabulary is contained in the reader\'s: every base tag the dumper can emit (each node class\'s ayns.tag value / prefix, the tags inferred from flags, !null, !metadata) has a registered constructor or multi-constructor prefix.',
    'R2: once flags / metadata have been folded into the tag variable, every represent_* call on a tagged path passes that variable (not a literal).',
    'R3: the elision loop runs over exactly the four merge-control flags (never over user metadata) and elides a flag only when, under the library\'s own getters and _get_child_kwargs, the node and a child of every type default keep the same effective value (finite tables; two elision cases are known findings).',
    'R4: function nodes are represented with their argument *mapping* (keys preserved), and tagged mappings / sequences are emitted with represent_mapping / represent_sequence of that data.',
    'R6: PathNode.ayns.value carries source_file for every spelling of the reference points that evaluation resolves against the node\'s own file (file, parent, parent(n)).',
    'R7: the representer (and the helpers only it uses) writes no module / class level state.',
    'R5: a tagged scalar is written as repr() of its native value (quoting preserved so that the implicit resolver gives the same type back).',
    'R8: the tag of a !call / !bind node names its target both for a stored name and for a resolved callable (module.name). R9: every AwesomeyamlDumper method that overrides a PyYAML method hands its arguments to the overridden method on every completing path (only the unquoted-output switch may answer by itself) and returns its result. R10: AwesomeyamlLoader._convert fills a missing stage index / source file from the parse context and keeps existing ones.',
]
UNDECIDED = ['the round trip as a whole (text stability, scalar quoting by PyYAML, metadata pickling);', 'priority elision for trees produced by merging (children attached later carry no priority).']
FLAGS = ['priority', 'delete', 'allow_new', 'safe']


ABCS = None


def dump_case(repo, cls, flags, parent_md=None, data=None, user_md=None, tag=None, default_safe=None, out=None):
    """_node_representer evaluated (finite-domain evaluator) for one node: the node's own representation triple and the dumper
    are stand-ins; returns (raised, log) with log entries ('encode', metadata), ('represent_*', args, kwargs, open with-contexts, pushed)"""
    import collections.abc as cabc
    rep = repo.func('yaml._node_representer')
    kw = {'_' + k: v for k, v in flags.items()}
    if default_safe is not None:
        kw['_default_safe'] = default_safe
    node = node_obj('n', cls, **kw)
    pframe = dict(parent_md) if parent_md is not None else None
    dumper = Obj('dumper', 'AwesomeyamlDumper', metadata=([pframe] if parent_md is not None else []), exclude_metadata=set())
    if out is not None:
        out.update(dumper=dumper, pframe=pframe)
    log = []
    md = dict(user_md or {})
    md.update(flags)
    holder = []

    def stub(name, recv, args, kwargs):
        if name == 'represent':
            return (tag, md, data)
        if name == '_encode_metadata':
            log.append(('encode', dict(args[0]) if args else {}))
            return 'ENC'
        if name.startswith('represent_'):
            f_ = holder[0]
            opened = []
            for e in f_.effects:
                if e[0] == 'with_enter':
                    opened.append(e[1])
                elif e[0] == 'with_exit' and opened:
                    opened.pop()
            log.append((name, tuple(args), dict(kwargs), tuple(opened), [dict(x) for x in dumper.f['metadata']], [x is pframe for x in dumper.f['metadata']]))
            return Opaque('yaml node')
        if name == 'force_unquoted':
            return Opaque('cm')
        raise AnalysisError('_node_representer: unexpected call of %s' % name)
    f = FDE(repo, stubs={'represent', '_encode_metadata', 'represent_mapping', 'represent_sequence', 'represent_scalar', 'represent_data', 'force_unquoted'}, stub=stub)
    holder.append(f)
    f.externals = {'cabc.Mapping': cabc.Mapping, 'cabc.Sequence': cabc.Sequence, 'cabc.MutableSequence': cabc.MutableSequence, 'cabc.MutableMapping': cabc.MutableMapping}
    r = fde_guard(lambda: f.call(rep, dumper, node))
    return r.raised, log


FLAG_TAGS = {'priority': {-1: '!weak', 1: '!force'}, 'delete': {True: '!del', False: '!merge'}, 'allow_new': {True: '!new', False: '!notnew'}, 'safe': {True: '!safe', False: '!unsafe'}}
NOFLAGS = {'priority': None, 'delete': None, 'allow_new': None, 'safe': None}
# a class / default_safe setting under which the value differs from the type default (so that it cannot be elided)
CARRIER = {('priority', -1): ('ConfigDict', None), ('priority', 1): ('ConfigDict', None), ('delete', True): ('ConfigDict', None), ('delete', False): ('ConfigList', None),
           ('allow_new', False): ('ConfigDict', None), ('allow_new', True): None, ('safe', False): ('ConfigDict', True), ('safe', True): ('ConfigDict', False)}


def _emit(log):
    em = [x for x in log if x[0].startswith('represent_')]
    return em[-1] if em else None


def writer_tag_table(repo):
    """flag value -> tag the writer emits for a node that carries only this flag (None: always elided / never a tag of its own)"""
    out = {}
    for f, m in FLAG_TAGS.items():
        for val in m:
            car = CARRIER.get((f, val))
            if car is None:
                out[(f, val)] = None
                continue
            cls, ds = car
            flags = dict(NOFLAGS)
            flags[f] = val
            data = {'k': 1} if cls == 'ConfigDict' else [1]
            raised, log = dump_case(repo, cls, flags, None, data, default_safe=ds)
            e = _emit(log)
            if raised or e is None or not e[1]:
                raise AnalysisError('_node_representer: %s=%r is not emitted through a represent_* call (%s)' % (f, val, raised))
            out[(f, val)] = e[1][0] if isinstance(e[1][0], str) else None
    return out


def emitted_tags(repo):
    out = []   # (tag text, is_prefix, where)
    for fi in repo.cha('tag', ayns=True):
        for p in tr.paths_of(repo, fi, follow_exceptions=False):
            if p.status != 'return' or p.ret is None:
                continue
            v = p.ret.ast
            for _ in range(3):
                g_ = fi.module.constant_binding(v.id) if isinstance(v, ast.Name) else None      # a module-level named constant
                if g_ is None:
                    break
                v = g_
            if isinstance(v, ast.Constant):
                if isinstance(v.value, str):
                    out.append((v.value, False, fi))
            elif isinstance(v, ast.BinOp) and isinstance(v.op, ast.Add) and isinstance(v.left, ast.Constant) and isinstance(v.left.value, str):
                out.append((v.left.value, True, fi))
            elif isinstance(v, ast.JoinedStr) and v.values and isinstance(v.values[0], ast.Constant) and isinstance(v.values[0].value, str):
                out.append((v.values[0].value, True, fi))
            else:
                raise AnalysisError('tag expression %s of %s not recognised' % (p.ret.text[:60], fi.qualname))
    rep = repo.func('yaml._node_representer')
    table = writer_tag_table(repo)
    for (f, val), t in table.items():
        if t:
            out.append((t.split(':')[0], False, rep))
    # the data-less node and the metadata-only node
    raised, log = dump_case(repo, 'ConfigNode', dict(NOFLAGS), None, None)
    e = _emit(log)
    if raised or e is None or not isinstance(e[1][0], str):
        raise AnalysisError('_node_representer: representation of a value-less node not evaluable (%s)' % raised)
    out.append((e[1][0].split(':')[0], False, rep))
    raised, log = dump_case(repo, 'ConfigDict', dict(NOFLAGS), None, {'k': 1}, user_md={'note': 'x'})
    e = _emit(log)
    if not raised and e is not None and isinstance(e[1][0], str):
        out.append((e[1][0].split(':')[0], True, rep))      # (a failure of this case is reported by R3b)
    out = sorted({(t, p_, id(fi)): (t, p_, fi) for t, p_, fi in out}.values(), key=lambda x: (x[0], x[1]))
    return out, table


def r1(repo, run):
    tags, table = emitted_tags(repo)
    reader = constructors(repo)
    plain = {t for t, e in reader.items() if not e.multi}
    multi = {t for t, e in reader.items() if e.multi}
    n = 0
    for tag, prefix, fi in tags:
        n += 1
        if prefix:
            p = tag if tag.endswith(':') else tag + ':'
            ok = p in multi
        else:
            ok = tag in plain or any(tag.startswith(m) for m in multi)
        if ok:
            run.ok('C18.R1', fi, 'emits %s%s' % (tag, '<suffix>' if prefix else ''), 'constructor registered')
        else:
            run.violation('C18.R1', fi, 'emits %s%s' % (tag, '<suffix>' if prefix else ''), 'the dumper can write the tag %s but the loader has no constructor for it: the dumped text cannot be parsed back' % tag)
        if not prefix and tag not in ('!metadata',) and (tag + ':') not in multi and tag in plain and fi.cls is not None:
            run.info('C18.R1', fi, '%s with metadata suffix' % tag, 'no multi-constructor %s: - not reachable from parsed documents (the {{..}} syntax on this tag does not parse either)' % tag)
    if n < 18:
        raise AnalysisError('C18.R1: only %d emitted tags found' % n)
    rep = repo.func('yaml._node_representer')
    for (f, val), got in sorted(table.items(), key=str):
        tag = FLAG_TAGS[f][val]
        if got is None:
            continue
        if got != tag:
            run.violation('C18.R1', rep, 'writer: %s=%r -> %r' % (f, val, got), 'flag %s=%r is written as %r; the reader maps %r to another flag value (documented tag: %r)' % (f, val, got, got, tag))
        else:
            e = reader.get(tag)
            if e is None or e.kwargs != {f: val}:
                run.violation('C18.R1', rep, '%s <-> %s=%r' % (tag, f, val), 'writer and reader disagree on the meaning of %s (reader sets %s)' % (tag, e.kwargs if e else None))
            else:
                run.ok('C18.R1', rep, '%s <-> %s=%r' % (tag, f, val), 'writer and reader agree')


def r2(repo, run):
    """whatever was folded into the tag is what the represent_* call receives: single flag -> its tag, several flags / user metadata ->
    <base>:<encoded metadata> carrying all of them, own tag of the node kept as base, value-less node -> !null"""
    rep = repo.func('yaml._node_representer')
    bad = []
    rows = 0
    cases = [
        ('ConfigDict', {'delete': True}, None, {'k': 1}, None, None, 'represent_mapping', '!del', None),
        ('ConfigList', {'delete': False}, None, [1], None, None, 'represent_sequence', '!merge', None),
        ('ConfigDict', {'priority': 1, 'delete': True}, None, {'k': 1}, None, None, 'represent_mapping', '!metadata:ENC', {'priority': 1, 'delete': True}),
        ('ConfigDict', {}, {'note': 'x'}, {'k': 1}, None, None, 'represent_mapping', '!metadata:ENC', {'note': 'x'}),
        ('ConfigNode', {'allow_new': False}, None, 5, None, None, 'represent_scalar', '!notnew', None),
        ('ConfigNode', {'delete': True}, None, 'path', '!xref', None, 'represent_scalar', '!xref:ENC', {'delete': True}),
        ('ConfigNode', {}, None, None, None, None, 'represent_scalar', '!null', None),
        ('ConfigNode', {'delete': True}, None, None, None, None, 'represent_scalar', '!null:ENC', {'delete': True}),
    ]
    for cls, fl, umd, data, tag, ds, fn, want_tag, want_md in cases:
        flags = dict(NOFLAGS)
        flags.update(fl)
        raised, log = dump_case(repo, cls, flags, None, data, user_md=umd, tag=tag, default_safe=ds)
        rows += 1
        e = _emit(log)
        enc = [x[1] for x in log if x[0] == 'encode']
        if raised or e is None:
            raise AnalysisError('_node_representer: case %s %s not evaluable (%s)' % (cls, fl, raised))
        got_tag = e[1][0] if e[1] else None
        if e[0] != fn or got_tag != want_tag:
            bad.append('%s with %s%s%s is written by %s(%r, ...); expected %s(%r, ...): flags / metadata folded into the tag are lost' % (cls, fl or 'no flags', ' + user metadata' if umd else '', ' (own tag %s)' % tag if tag else '', e[0], got_tag, fn, want_tag))
        elif want_md is not None and (not enc or enc[-1] != want_md):
            bad.append('%s with %s: encoded metadata %s, expected %s' % (cls, fl or umd, enc[-1] if enc else None, want_md))
    run.table('C18.R2', rows, 'emitted (function, tag, encoded metadata) over node kinds x flag sets')
    if bad:
        run.violation('C18.R2', rep, 'computed tag emitted', '; '.join(bad[:3]))
    else:
        run.ok('C18.R2', rep, 'tag / metadata table (%d rows)' % rows, 'computed tag emitted on every tagged path')


def _elided(repo, flag, current, parent, default):
    cls = {('delete', False): 'ConfigDict', ('delete', True): 'ConfigList'}.get((flag, default), 'ConfigDict')
    flags = dict(NOFLAGS)
    flags[flag] = current
    data = {'k': 1} if cls == 'ConfigDict' else [1]
    raised, log = dump_case(repo, cls, flags, ({flag: parent} if parent is not None else None), data, default_safe=(default if flag == 'safe' else None))
    e = _emit(log)
    if raised or e is None:
        raise AnalysisError('_node_representer: elision case %s=%r not evaluable (%s)' % (flag, current, raised))
    enc = [x[1] for x in log if x[0] == 'encode']
    tag = e[1][0] if e[1] and isinstance(e[1][0], str) else ''
    kept = any(flag in m for m in enc) or (current in FLAG_TAGS[flag] and tag.split(':')[0] == FLAG_TAGS[flag][current])
    return not kept


def r3(repo, run):
    rep = repo.func('yaml._node_representer')
    # R3b: user metadata is never elided, whatever the ancestors carry
    raised, log = dump_case(repo, 'ConfigDict', dict(NOFLAGS), {'note': 'x', 'other': None}, {'k': 1}, user_md={'note': 'x', 'other': None})
    enc = [x[1] for x in log if x[0] == 'encode']
    if raised:
        run.violation('C18.R3b', rep, 'dump of a node with user metadata', 'the elision does not stop at the four merge-control flags: a node that carries user metadata cannot be dumped (%s while looking up a type default for a user key)' % raised)
    elif not enc or enc[-1].get('note') != 'x' or 'other' not in enc[-1]:
        run.violation('C18.R3b', rep, 'elision of user metadata', 'the elision does not stop at the four merge-control flags: user metadata that happens to equal an ancestor\'s (or is None) is dropped from the dump (%s), although it is never inherited on parse' % (enc[-1] if enc else 'nothing encoded'))
    else:
        run.ok('C18.R3b', rep, 'user metadata equal to the ancestor\'s / None is still written', 'only priority / delete / allow_new / safe can be elided')
    gk = repo.func('ComposedNode._get_child_kwargs')
    specs = {
        'delete': dict(defaults=[(False, 'ConfigDict'), (True, 'ConfigList')], child_classes=['ConfigDict', 'ConfigList'], getter='delete'),
        'allow_new': dict(defaults=[(True, 'ConfigDict')], child_classes=['ConfigNode'], getter='allow_new'),
        'safe': dict(defaults=[(True, 'ConfigDict'), (False, 'ConfigDict')], child_classes=['ConfigNode'], getter='safe'),
    }
    for flag, sp in specs.items():
        bad = []
        rows = 0
        for default, cls in sp['defaults']:
            for current in (True, False):
                for parent in F3:
                    rows += 1
                    if not _elided(repo, flag, current, parent, default):
                        continue
                    res = []
                    for expl in (current, None):
                        kw = {'_' + flag: expl, '_implicit_' + flag: parent}
                        if flag == 'safe':
                            kw['_default_safe'] = default
                        node = node_obj('n', cls, **kw)
                        f = FDE(repo)
                        own = fde_guard(lambda: f.getter(node, sp['getter']))
                        ck = fde_guard(lambda: FDE(repo).call(gk, node)).ret
                        kids = []
                        for cc in sp['child_classes']:
                            ckw = {'_implicit_' + flag: ck.get('implicit_' + flag)}
                            if flag == 'safe':
                                ckw['_default_safe'] = default
                            child = node_obj('c', cc, **ckw)
                            kids.append(fde_guard(lambda: FDE(repo).getter(child, sp['getter'])))
                        res.append((own, tuple(kids)))
                    if res[0] != res[1]:
                        bad.append(dict(current=current, parent=parent, default=default, cls=cls, kept=res[0], elided=res[1]))
        run.table('C18.R3:' + flag, rows, 'elision of %s over (current, ancestor value, type default)' % flag)
        if bad:
            b = bad[0]
            run.violation('C18.R3', rep, 'elision of %s' % flag,
                          'an explicit %s=%r under ancestor value %r on a node whose type default is %r is elided, but with the library\'s own flag semantics the re-parsed node / its children then resolve %s differently (kept: node %r children %r; elided: node %r children %r) [%d valuations]' %
                          (flag, b['current'], b['parent'], b['default'], flag, b['kept'][0], b['kept'][1], b['elided'][0], b['elided'][1], len(bad)), witness=bad[:4])
        else:
            run.ok('C18.R3', rep, 'elision of %s (%d rows)' % (flag, rows), 'effective values unchanged for node and children')
    if thorough():
        # flags are decided independently: for every combination of the four explicit flags (and an ancestor that carries some of them)
        # the set of flags that reaches the text (tag or encoded metadata) is the union of the single-flag decisions
        import itertools
        bad_c = []
        rows_c = 0
        single = {}
        for pmd in (None, {'delete': True}, {'allow_new': False, 'safe': False}, {'priority': 1}):
            for flag, vals in (('priority', (-1, 1)), ('delete', (True, False)), ('allow_new', (True, False)), ('safe', (True, False))):
                for v in vals:
                    par = (pmd or {}).get(flag)
                    single[(str(pmd), flag, v)] = not _elided(repo, flag, v, par, {'priority': 0, 'delete': False, 'allow_new': True, 'safe': True}[flag])
            for pr_, dl, an, sf in itertools.product((None, -1, 1), (None, True, False), (None, True, False), (None, True, False)):
                flags = {'priority': pr_, 'delete': dl, 'allow_new': an, 'safe': sf}
                raised, log = dump_case(repo, 'ConfigDict', flags, pmd, {'k': 1}, default_safe=True)
                e = _emit(log)
                rows_c += 1
                if raised or e is None:
                    raise AnalysisError('_node_representer: flag combination %s not evaluable (%s)' % (flags, raised))
                enc = [x[1] for x in log if x[0] == 'encode']
                tag = e[1][0] if e[1] and isinstance(e[1][0], str) else ''
                kept = set(enc[-1]) if enc else set()
                for f_, v_ in flags.items():
                    if v_ is not None and v_ in FLAG_TAGS[f_] and tag.split(':')[0] == FLAG_TAGS[f_][v_]:
                        kept.add(f_)
                want = {f_ for f_, v_ in flags.items() if v_ is not None and single[(str(pmd), f_, v_)]}
                if kept != want:
                    bad_c.append((flags, pmd, sorted(kept), sorted(want)))
        run.table('C18.R3:combinations', rows_c, 'kept flags over all combinations of the four explicit flags x ancestor metadata')
        if bad_c:
            fl, pm, kept, want = bad_c[0]
            run.violation('C18.R3', rep, 'elision over flag combinations', 'node flags %s below ancestor metadata %s: flags written %s, but the single-flag decisions keep %s' % (fl, pm, kept, want), witness=[str(x) for x in bad_c[:5]])
        else:
            run.ok('C18.R3', rep, 'flag combinations (%d rows)' % rows_c, 'each flag is kept / elided independently of the others')
    bad = []
    for current in (-1, 0, 1):
        for parent in (None, -1, 0, 1):
            el = _elided(repo, 'priority', current, parent, 0)
            sound = current == (parent if parent is not None else 0)
            if el and not sound:
                bad.append((current, parent))
    if bad:
        run.info('C18.R3', rep, 'elision of priority', 'priority %r below an ancestor priority %r is elided (reachable only for trees produced by merging, not for parsed documents)' % bad[0])


def r4(repo, run):
    fi = repo.func('FunctionNode.ayns.represent')
    verdict = None
    for p in tr.paths_of(repo, fi, no_inline={'get_node_info_to_save', '_get_value'}, follow_exceptions=False):
        if p.status != 'return' or p.ret is None or p.ret.elems is None or len(p.ret.elems) != 3:
            verdict = ('bad', 'function node representation is not the single triple (tag, info, argument mapping)')
            continue
        tag, info, data = [e.text for e in p.ret.elems]
        if data not in ('super()._get_value()', 'self', 'dict(self)', 'ConfigDict._get_value(self)'):
            verdict = ('bad', 'the arguments of a function node are not dumped as their mapping (%s): integer keys with gaps / mixed keys do not survive a list or reordered form' % data[:60])
        elif tag != 'self.ayns.tag' or info != 'self.ayns.get_node_info_to_save()':
            verdict = ('bad', 'tag / node info are not the node\'s own')
        elif verdict is None:
            verdict = ('ok', 'argument mapping dumped with its keys')
    if verdict is None:
        raise AnalysisError('FunctionNode.ayns.represent: no returning path')
    (run.ok if verdict[0] == 'ok' else run.violation)('C18.R4', fi, 'FunctionNode.ayns.represent', verdict[1])
    rep = repo.func('yaml._node_representer')
    for cls, data, fn in (('ConfigDict', {'k': 1, 2: 3}, 'represent_mapping'), ('ConfigList', [1, 2], 'represent_sequence')):
        flags = dict(NOFLAGS)
        flags['priority'] = 1
        raised, log = dump_case(repo, cls, flags, None, data)
        e = _emit(log)
        if raised or e is None:
            raise AnalysisError('_node_representer: tagged container not evaluable (%s)' % raised)
        if e[0] == fn and len(e[1]) >= 2 and e[1][1] is data:
            run.ok('C18.R4', rep, 'tagged %s -> dumper.%s(tag, data)' % (cls, fn))
        else:
            run.violation('C18.R4', rep, 'tagged %s' % cls, 'tagged %s data is not written with %s(tag, data) (written by %s)' % ('mapping' if cls == 'ConfigDict' else 'sequence', fn, e[0]))
    base = repo.func('ConfigNode.ayns.get_node_info_to_save')
    umd = {'u': 1}
    node = node_obj('n', 'ConfigNode', _priority=1, _delete=True, _allow_new=False, _safe=False, _metadata=umd)
    f = FDE(repo)
    f.extcalls = {'copy.copy': lambda x: dict(x) if isinstance(x, dict) else x, 'copy.deepcopy': lambda x: dict(x) if isinstance(x, dict) else x}
    r = fde_guard(lambda: f.call(base, node))
    if r.raised or r.ret != {'u': 1, 'priority': 1, 'delete': True, 'allow_new': False, 'safe': False} or r.ret is umd or umd != {'u': 1}:
        run.violation('C18.R4', base, 'get_node_info_to_save -> %s' % (r.ret,), 'saved node info is not {a copy of the user metadata} + the four explicit flags')
    else:
        run.ok('C18.R4', base, 'node info = copy of user metadata + explicit priority/delete/allow_new/safe')


def r5(repo, run):
    rep = repo.func('yaml._node_representer')
    scalar = Obj('scalar', 'ConfigScalar')
    native = lambda d: 'no'
    native._fde_ok = True
    scalar.f['_dyn_base'] = native
    flags = dict(NOFLAGS)
    flags['priority'] = 1
    raised, log = dump_case(repo, 'ConfigScalar', flags, None, scalar)
    e = _emit(log)
    if raised or e is None or e[0] != 'represent_scalar':
        raise AnalysisError('_node_representer: tagged ConfigScalar emission not recognised (%s)' % raised)
    if len(e[1]) < 2 or e[1][1] != repr('no'):
        run.violation('C18.R5', rep, 'tagged scalar written as %r' % (e[1][1] if len(e[1]) > 1 else None,), 'a tagged scalar is not written as repr(native value): tagged scalars bypass PyYAML\'s quoting and are re-resolved on parse, so e.g. the string \'no\' comes back as False')
    elif not any('force_unquoted' in w for w in e[3]):
        run.violation('C18.R5', rep, 'tagged scalar emission', 'tagged scalar emitted outside force_unquoted(): PyYAML would quote the repr() again')
    else:
        run.ok('C18.R5', rep, "tagged scalar 'no' -> represent_scalar(tag, \"'no'\") inside force_unquoted()", 'repr of the native value')


def r6(repo, run):
    """a !path node whose reference point is resolved against its own source file writes that file into the dump (a re-parsed
    copy lives in another file, or in none): PathNode.ayns.value evaluated for every spelling of the file-relative reference points"""
    fi = repo.classes['PathNode'].ayns.get('value') if 'PathNode' in repo.classes else None
    ev = repo.func('PathNode.ayns.on_evaluate_impl')
    if fi is None:
        raise AnalysisError('PathNode.ayns.value not found')
    needs = set()
    for p in tr.paths_of(repo, ev, no_inline={'on_evaluate_impl'}, follow_exceptions=False):
        kinds = [t.rsplit('==', 1)[1].strip().strip("'") for t, pol in p.facts if pol and '==' in t and t.rsplit('==', 1)[1].strip().startswith("'")]
        if kinds and any(e.kind == 'call' and e.callee == 'pathlib.Path' and e.args and e.args[0].text in ('self.ayns.source_file', 'self._source_file') for e in p.events):
            needs.add(kinds[-1])
    if not needs:
        raise AnalysisError('PathNode.on_evaluate_impl: reference points that use the source file not found')
    spell = {'file': [('file', ('file', None))], 'parent': [('parent', ('parent', 0)), ('parent(1)', ('parent', 1)), ('parent(3)', ('parent', 3))]}
    bad = []
    rows = 0
    changed = []
    for kind in sorted(needs):
        for text, parsed in spell.get(kind, []):
          for src in ('/d/conf.yaml', 'configs/exp/base.yaml', './base.yaml'):
            node = node_obj('p', 'PathNode', ref_point=text, _ref_point_parsed=parsed, _source_file=src)
            f = FDE(repo, stubs={'_get_value'}, stub=lambda name, recv, args, kwargs: ['a', 'b'])
            from .common import fs_extcalls
            f.extcalls = fs_extcalls()
            r = fde_guard(lambda: f.getter(node, 'value'))
            rows += 1
            if not isinstance(r, dict):
                raise AnalysisError('PathNode.ayns.value does not evaluate to a mapping')
            if r.get('source_file') is None:
                bad.append(text)
            elif r.get('source_file') != src:
                changed.append((text, src, r.get('source_file')))
    if changed and not bad:
        text, src, got = changed[0]
        run.violation('C18.R6', fi, 'PathNode.ayns.value', 'a !path:%s node parsed from %r writes source_file %r into the dump: the file-relative reference points are computed from that name, so the re-parsed node evaluates to a different path than the original (%d spellings)' % (text, src, got, len(changed)))
        return
    if bad:
        run.violation('C18.R6', fi, 'PathNode.ayns.value', 'a !path:%s node does not carry its source file through a dump (value has %s): the re-parsed node resolves against the location of the dump, not of the original file' % (bad[0], 'no source_file for ' + ', '.join(bad)))
    else:
        run.ok('C18.R6', fi, 'PathNode.ayns.value (%d reference-point spellings)' % rows, 'source_file written for every reference point that evaluation resolves against the node\'s own file (%s)' % sorted(needs))


def r7(repo, run):
    """the representer is a function of (node, ancestor metadata on the dumper): it keeps no state of its own between nodes - a
    module / class level cache filled while dumping makes the text of one node depend on which nodes were dumped before"""
    from .. import shared
    from .common import only_reached_from
    rep = repo.func('yaml._node_representer')
    fam = [rep] + [g for g in rep.module.functions.values() if g is not rep and only_reached_from(repo, g.qualname, {rep.qualname})]
    ws = [w for w in shared.shared_writes(repo, fam) if not w.kind.startswith('maybe-')]
    if ws:
        w = ws[0]
        run.violation('C18.R7', w.fi, w.text()[:100], 'the representer stores state in %s %s while dumping: what is written for a node then depends on the nodes dumped before it in this process (e.g. a default captured from the first node of a type)' % w.root)
    else:
        run.ok('C18.R7', rep, 'no write to module / class level state in the representer (%d functions)' % len(fam), 'the dump of a node depends on the node and its ancestors only')


def r12(repo, run):
    """the stack of 'what the children inherit' frames on the dumper: while the children of a container are written the stack is the
    ancestors' frames, untouched, plus one new frame holding nothing but inherited values and what was written for this node; when
    the node is done the stack is what it was before - a frame shared with (or folded into) the parent's makes flags of one subtree
    look inherited in its later siblings, whose equal flags are then elided although nothing implies them on re-parse"""
    rep = repo.func('yaml._node_representer')
    bad = []
    rows = 0
    for cls, data in (('ConfigDict', {'k': 1}), ('ConfigList', [1])):
        if cls not in repo.classes:
            continue
        for pmd in (None, {}, {'allow_new': False}, {'delete': True, 'note': 'p'}):
            for fl, umd in (({}, None), ({'delete': cls == 'ConfigDict'}, None), ({'priority': 1, 'delete': cls == 'ConfigDict'}, None), ({'delete': cls == 'ConfigDict'}, {'note': 'x'}), ({'safe': False, 'priority': -1}, {'u': 1})):
                flags = dict(NOFLAGS)
                flags.update(fl)
                out = {}
                raised, log = dump_case(repo, cls, flags, pmd, data, user_md=umd, default_safe=True, out=out)
                rows += 1
                e = _emit(log)
                if raised or e is None:
                    raise AnalysisError('_node_representer: frame case %s %s not evaluable (%s)' % (cls, fl, raised))
                what = '%s with %s%s below ancestor frame %s' % (cls, fl or 'no flags', ' + user metadata' if umd else '', pmd)
                before = [dict(pmd)] if pmd is not None else []
                stack, same = e[4], e[5]
                enc = [x[1] for x in log if x[0] == 'encode']
                written = dict(enc[-1]) if enc else {}
                tag = e[1][0] if e[1] and isinstance(e[1][0], str) else ''
                for f_, v_ in flags.items():
                    if v_ is not None and v_ in FLAG_TAGS[f_] and tag.split(':')[0] == FLAG_TAGS[f_][v_]:
                        written[f_] = v_
                if len(stack) != len(before) + 1:
                    bad.append('%s: %d frames while its children are written (expected the %d of the ancestors and one for the node)' % (what, len(stack), len(before)))
                    continue
                if stack[:-1] != before or (before and not same[0]):
                    bad.append('%s: the ancestors\' frame is %s while the children are written (was %s): it is updated in place, so the flags of this subtree stay "inherited" for every node dumped later' % (what, stack[:-1], before))
                    continue
                if same[-1]:
                    bad.append('%s: the frame pushed for the children is the ancestors\' frame itself' % what)
                    continue
                frame = stack[-1]
                allowed = dict(pmd or {})
                allowed.update(written)
                extra = {k: v for k, v in frame.items() if k not in allowed or allowed[k] != v}
                if extra:
                    bad.append('%s: the children\'s frame claims %s as inherited, which is neither inherited from the ancestors nor written for this node (written: %s)' % (what, extra, written))
                    continue
                after = out['dumper'].f['metadata']
                if [dict(x) for x in after] != before or (before and after[0] is not out['pframe']):
                    bad.append('%s: the frame stack after the node is %s, before it was %s' % (what, after, before))
    run.table('C18.R12', rows, 'frame stack of the dumper over container kinds x ancestor frames x node flag sets')
    if bad:
        run.violation('C18.R12', rep, 'inherited-flags frames', bad[0] + (' [%d cases]' % len(bad) if len(bad) > 1 else ''), witness=bad[:4])
    else:
        run.ok('C18.R12', rep, 'frame stack (%d rows)' % rows, 'ancestors\' frames untouched, one fresh frame per container (inherited + written values only), popped afterwards')


def r11(repo, run):
    """a node written without a tag of its own is handed to PyYAML as the plain Python value of its kind: a mapping node as a dict, a
    list node as a list, a tuple node as a tuple, a scalar node as its built-in base value; a plain (non-node) payload as it is"""
    rep = repo.func('yaml._node_representer')
    bad = []
    base = lambda x: 'BASE'      # noqa: E731
    base._fde_ok = True
    payloads = [('ConfigDict', node_obj('payload', 'ConfigDict'), 'dict(payload)'), ('ConfigList', node_obj('payload', 'ConfigList'), 'list(payload)'),
                ('ConfigTuple', node_obj('payload', 'ConfigTuple'), 'tuple(payload)'), ('ConfigScalar', node_obj('payload', 'ConfigScalar', _dyn_base=base), 'BASE'),
                ('plain value', 5, 5), ('plain text', 'abc', 'abc')]
    for what, data, want in payloads:
        if isinstance(data, Obj) and data.cls not in repo.classes:
            continue
        raised, log = dump_case(repo, data.cls if isinstance(data, Obj) else 'ConfigNode', dict(NOFLAGS), None, data, tag='')
        e = _emit(log)
        if raised or e is None:
            bad.append('%s payload: %s' % (what, raised or 'nothing is emitted'))
            continue
        got = e[1][0] if e[1] else None
        got_t = getattr(got, 'name', got)
        if e[0] != 'represent_data' or got_t != want:
            bad.append('an untagged %s is written through %s(%s), expected represent_data(%s)' % (what, e[0], got_t, want))
    if bad:
        run.violation('C18.R2', rep, 'untagged payloads', '; '.join(bad[:3]))
    else:
        run.ok('C18.R2', rep, 'untagged nodes are written as the plain dict / list / tuple / base scalar of their kind')


def check(repo, run, tier):
    g = Guard()
    g(r1, repo, run)
    g(r2, repo, run)
    g(r3, repo, run)
    g(r4, repo, run)
    g(r5, repo, run)
    g(r6, repo, run)
    g(r7, repo, run)
    g(r11, repo, run)
    g(r12, repo, run)
    g(unitrules.function_tags, repo, run, 'C18.R8')
    g(unitrules.overrides_delegate, repo, run, 'C18.R9', 'AwesomeyamlDumper')
    g(unitrules.wrapped_node_origin, repo, run, 'C18.R10')
    g(unitrules.node_init_table, repo, run, 'C18.R10')
    g(unitrules.path_node_tables, repo, run, 'C18.R6')
    g(unitrules.path_tag_table, repo, run, 'C18.R8')
    g(unitrules.dump_entry, repo, run, 'C18.R7')
    g(unitrules.dump_table, repo, run, 'C18.R7')
    g(unitrules.unquoted_scope_table, repo, run, 'C18.R9')
    g.done()


def mutants(repo):
    return [
        Mutant('unquoted-mode-never-switched-off', lambda r: in_func(r, 'AwesomeyamlDumper.serialize_node', "            if old is not None:", "            if old:"), ['C18.R9']),
        Mutant('excluded-metadata-none-by-default', lambda r: in_func(r, 'yaml.dump', "dumper.exclude_metadata = exclude_metadata or set()", "dumper.exclude_metadata = exclude_metadata and set()"), ['C18.R7']),
        Mutant('dump-returns-text-only-with-output', lambda r: in_func(r, 'yaml.dump', "    if output is None:\n        return ret", "    if output is not None:\n        return ret"), ['C18.R7']),
        Mutant('dump-leaves-own-file-open', lambda r: in_func(r, 'yaml.dump', "        close = True\n", "        close = False\n"), ['C18.R7']),
        Mutant('dump-ignores-the-stream', lambda r: in_func(r, 'yaml.dump', "yaml.dump(ConfigNode(nodes), stream=output, Dumper=get_dumper", "yaml.dump(ConfigNode(nodes), Dumper=get_dumper"), ['C18.R7']),
        Mutant('tuples-written-as-lists', lambda r: in_func(r, 'yaml._node_representer', "if isinstance(data, cabc.MutableSequence):", "if not isinstance(data, cabc.MutableSequence):"), ['C18.R2']),
        Mutant('explicit-source-file-ignored', lambda r: in_func(r, 'ConfigNode.__init__', "source_file if source_file is not None else", "source_file if source_file is None else"), ['C18.R10']),
        Mutant('write-plain-does-not-delegate', lambda r: in_func(r, 'AwesomeyamlDumper.write_plain', "        super().write_plain(text, *args, **kwargs)\n", "        pass\n"), ['C18.R9']),
        Mutant('bind-tag-of-callable', lambda r: in_func(r, 'BindNode.ayns.tag', "if not isinstance(_func, str):", "if isinstance(_func, str):"), ['C18.R8']),
        Mutant('source-file-overwritten', lambda r: in_func(r, 'AwesomeyamlLoader._convert', "if ret._source_file is None:", "if ret._source_file is not None:"), ['C18.R10']),
        Mutant('F15-reverted-safe-unregistered', lambda r: in_module(r, 'yaml', "add_constructor('!safe', _safe_constructor)\n", ""), ['C18.R1']),
        Mutant('writer-swaps-new-notnew', lambda r: in_func(r, 'yaml._node_representer', "            True: '!new',\n            False: '!notnew'", "            True: '!notnew',\n            False: '!new'"), ['C18.R1']),
        Mutant('eval-tag-renamed-on-write', lambda r: in_func(r, 'EvalNode.ayns.tag', "return '!eval'", "return '!evaluate'"), ['C18.R1']),
        Mutant('F16-reverted-null-literal', lambda r: in_func(r, 'yaml._node_representer', "return dumper.represent_scalar(tag, '', style='')", "return dumper.represent_scalar('!null', '', style='')"), ['C18.R2']),
        Mutant('elision-over-all-metadata', lambda r: in_func(r, 'yaml._node_representer', "    to_infer = list(tags_to_infer.keys())\n", "    to_infer = list(metadata.keys())\n"), ['C18.R3b']),
        Mutant('elide-safe-against-parent-only', lambda r: in_func(r, 'yaml._node_representer', "            if current == parent or current == default:", "            if current == parent or current == default or (f == 'safe' and current is True):"), ['C18.R3']),
        Mutant('call-args-dumped-as-list', lambda r: in_func(r, 'FunctionNode.ayns.represent', "super()._get_value()", "[v for _, v in sorted(self.items())]"), ['C18.R4']),
        Mutant('tagged-scalar-verbatim', lambda r: in_func(r, 'yaml._node_representer', "return dumper.represent_scalar(tag, repr(data._dyn_base(data)))", "return dumper.represent_scalar(tag, str(data._dyn_base(data)))"), ['C18.R5']),
        Mutant('children-frame-folded-into-parent', lambda r: in_func(r, 'yaml._node_representer', "dumper.metadata.append(children_metadata)", "parent_metadata.update(children_metadata); dumper.metadata.append(parent_metadata)"), ['C18.R12']),
        Mutant('F21-reverted-frame-without-short-tag-flag', lambda r: in_func(r, 'yaml._node_representer', "dumper.metadata.append(children_metadata)", "dumper.metadata.append({ **parent_metadata, **metadata })"), ['C18.R12']),
        Mutant('children-frame-never-popped', lambda r: in_func(r, 'yaml._node_representer', "            dumper.metadata.pop()", "            pass"), ['C18.R12']),
        Mutant('neutral-comment', lambda r: in_func(r, 'yaml._node_representer', "    to_infer = list(tags_to_infer.keys())\n", "    to_infer = list(tags_to_infer.keys())  # flags only\n"), neutral=True),
    ]
