"""C18 - dump then parse gives a tree that merges and evaluates the same (structural clauses only)."""
import ast

from ..fde import FDE, Obj
from ..mutate import Mutant, in_func, delete_stmt, in_module
from ..report import AnalysisError
from ..srcmodel import unparse, norm, walk_no_nested, calls_in, fold_const
from .common import is_method_call, get_kw, node_obj, fde_guard, F3, parent_chain
from .tagtable import constructors

from .common import Guard  # noqa: E402

PROP = 'C18'
DECIDED = [
    'R1: the writer\'s tag vocabulary is contained in the reader\'s: every base tag the dumper can emit (each node class\'s ayns.tag value / prefix, the tags inferred from flags, !null, !metadata) has a registered constructor or multi-constructor prefix.',
    'R2: once flags / metadata have been folded into the tag variable, every represent_* call on a tagged path passes that variable (not a literal).',
    'R3: the elision loop runs over exactly the four merge-control flags (never over user metadata) and elides a flag only when, under the library\'s own getters and _get_child_kwargs, the node and a child of every type default keep the same effective value (finite tables; two elision cases are known findings).',
    'R4: function nodes are represented with their argument *mapping* (keys preserved), and tagged mappings / sequences are emitted with represent_mapping / represent_sequence of that data.',
    'R5: a tagged scalar is written as repr() of its native value (quoting preserved so that the implicit resolver gives the same type back).',
]
UNDECIDED = ['the round trip as a whole (text stability, scalar quoting by PyYAML, metadata pickling);', 'priority elision for trees produced by merging (children attached later carry no priority).']
FLAGS = ['priority', 'delete', 'allow_new', 'safe']


def emitted_tags(repo):
    out = []   # (tag text, is_prefix, where)
    for fi in repo.cha('tag', ayns=True):
        for r in walk_no_nested(fi.node):
            if isinstance(r, ast.Return) and r.value is not None:
                v = r.value
                if isinstance(v, ast.Constant):
                    if isinstance(v.value, str):
                        out.append((v.value, False, fi))
                elif isinstance(v, ast.BinOp) and isinstance(v.op, ast.Add) and isinstance(v.left, ast.Constant) and isinstance(v.left.value, str):
                    out.append((v.left.value, True, fi))
                else:
                    raise AnalysisError('tag expression %s of %s not recognised' % (norm(v), fi.qualname))
    rep = repo.func('yaml._node_representer')
    tti = [s for s in walk_no_nested(rep.node) if isinstance(s, ast.Assign) and norm(s.targets[0]) == 'tags_to_infer']
    if len(tti) != 1 or not isinstance(tti[0].value, ast.Dict):
        raise AnalysisError('_node_representer: tags_to_infer table not recognised')
    table = {}
    for k, v in zip(tti[0].value.keys, tti[0].value.values):
        table[k.value] = {}
        for kk, vv in zip(v.keys, v.values):
            ok, kv = fold_const(repo, kk)
            table[k.value][kv if ok else norm(kk)] = vv.value
            if vv.value:
                out.append((vv.value, False, rep))
    for s in walk_no_nested(rep.node):
        if isinstance(s, ast.Assign) and norm(s.targets[0]) == 'tag' and isinstance(s.value, ast.Constant) and isinstance(s.value.value, str):
            out.append((s.value.value, s.value.value == '!metadata', rep))
    return out, table


def r1(repo, run):
    tags, table = emitted_tags(repo)
    reader = constructors(repo)
    plain = {t for t, e in reader.items() if not e.multi}
    multi = {t for t, e in reader.items() if e.multi}
    n = 0
    for tag, prefix, fi in tags:
        n += 1
        if prefix:
            p = tag if tag.endswith(':') else tag + ':'
            ok = p in multi
        else:
            ok = tag in plain or any(tag.startswith(m) for m in multi)
        if ok:
            run.ok('C18.R1', fi, 'emits %s%s' % (tag, '<suffix>' if prefix else ''), 'constructor registered')
        else:
            run.violation('C18.R1', fi, 'emits %s%s' % (tag, '<suffix>' if prefix else ''), 'the dumper can write the tag %s but the loader has no constructor for it: the dumped text cannot be parsed back' % tag)
        if not prefix and tag not in ('!metadata',) and (tag + ':') not in multi and tag in plain and fi.cls is not None:
            run.info('C18.R1', fi, '%s with metadata suffix' % tag, 'no multi-constructor %s: - not reachable from parsed documents (the {{..}} syntax on this tag does not parse either)' % tag)
    if n < 18:
        raise AnalysisError('C18.R1: only %d emitted tags found' % n)
    want = {'priority': {-1: '!weak', 1: '!force', 0: ''}, 'delete': {True: '!del', False: '!merge'}, 'allow_new': {True: '!new', False: '!notnew'}, 'safe': {True: '!safe', False: '!unsafe'}}
    rep = repo.func('yaml._node_representer')
    for f, m in want.items():
        for val, tag in m.items():
            got = table.get(f, {}).get(val)
            if got != tag:
                run.violation('C18.R1', rep, 'tags_to_infer[%r][%r] = %r' % (f, val, got), 'flag %s=%r is written as %r; the reader maps %r to another flag value (documented tag: %r)' % (f, val, got, got, tag))
            elif tag:
                e = reader.get(tag)
                if e is None or e.kwargs != {f: val}:
                    run.violation('C18.R1', rep, '%s <-> %s=%r' % (tag, f, val), 'writer and reader disagree on the meaning of %s (reader sets %s)' % (tag, e.kwargs if e else None))
                else:
                    run.ok('C18.R1', rep, '%s <-> %s=%r' % (tag, f, val), 'writer and reader agree')


def r2(repo, run):
    rep = repo.func('yaml._node_representer')
    n = 0
    for c in calls_in(rep.node):
        if is_method_call(c, recv='dumper', member=('represent_scalar', 'represent_mapping', 'represent_sequence')):
            conds = [p for p in parent_chain(c) if isinstance(p, ast.If)]
            tagged = any(norm(p.test) == 'tag' and any(x is c for b in p.body for x in ast.walk(b)) for p in conds)
            if not tagged:
                continue
            n += 1
            if norm(c.args[0]) == 'tag':
                run.ok('C18.R2', (rep.file, c.lineno, rep.qualname), unparse(c)[:90], 'computed tag emitted')
            else:
                run.violation('C18.R2', rep, unparse(c), 'a tagged node is written with the literal %s instead of the computed tag: flags / metadata folded into the tag are lost' % norm(c.args[0]), node=c)
    if n < 4:
        raise AnalysisError('_node_representer: tagged represent_* calls not recognised (%d)' % n)


def _elision_loop(repo):
    rep = repo.func('yaml._node_representer')
    loops = [s for s in walk_no_nested(rep.node) if isinstance(s, ast.For) and any(isinstance(x, ast.Delete) for x in ast.walk(s))]
    if len(loops) != 1:
        raise AnalysisError('_node_representer: elision loop not recognised')
    return rep, loops[0]


def _elided(repo, rep, loop, flag, current, parent, default):
    f = FDE(repo)
    md = {flag: current}
    env = {'metadata': md, 'parent_metadata': ({flag: parent} if parent is not None else {}), 'type_defaults': {flag: default}, norm(loop.iter): [flag]}
    fde_guard(lambda: f._run([loop], env, rep))
    return flag not in md


def r3(repo, run):
    rep, loop = _elision_loop(repo)
    # R3b: iterates exactly the flag names
    it = norm(loop.iter)
    src = None
    for s in walk_no_nested(rep.node):
        if isinstance(s, ast.Assign) and norm(s.targets[0]) == it:
            src = norm(s.value)
    if src not in ('list(tags_to_infer.keys())', 'list(tags_to_infer)', 'tags_to_infer.keys()', 'tags_to_infer') and it not in ('tags_to_infer', 'tags_to_infer.keys()'):
        run.violation('C18.R3b', rep, 'for %s in %s%s' % (norm(loop.target), it, (' = ' + src) if src else ''), 'the elision loop runs over %s, not over the four merge-control flags: user metadata that happens to equal an ancestor\'s (or is None) is dropped from the dump, although it is never inherited on parse' % (src or it), node=loop)
    else:
        run.ok('C18.R3b', (rep.file, loop.lineno, rep.qualname), 'for %s in %s = %s' % (norm(loop.target), it, src), 'only priority / delete / allow_new / safe can be elided')
    gk = repo.func('ComposedNode._get_child_kwargs')
    specs = {
        'delete': dict(defaults=[(False, 'ConfigDict'), (True, 'ConfigList')], child_classes=['ConfigDict', 'ConfigList'], getter='delete'),
        'allow_new': dict(defaults=[(True, 'ConfigDict')], child_classes=['ConfigNode'], getter='allow_new'),
        'safe': dict(defaults=[(True, 'ConfigDict'), (False, 'ConfigDict')], child_classes=['ConfigNode'], getter='safe'),
    }
    for flag, sp in specs.items():
        bad = []
        rows = 0
        for default, cls in sp['defaults']:
            for current in (True, False):
                for parent in F3:
                    rows += 1
                    if not _elided(repo, rep, loop, flag, current, parent, default):
                        continue
                    res = []
                    for expl in (current, None):
                        kw = {'_' + flag: expl, '_implicit_' + flag: parent}
                        if flag == 'safe':
                            kw['_default_safe'] = default
                        node = node_obj('n', cls, **kw)
                        f = FDE(repo)
                        own = fde_guard(lambda: f.getter(node, sp['getter']))
                        ck = fde_guard(lambda: FDE(repo).call(gk, node)).ret
                        kids = []
                        for cc in sp['child_classes']:
                            ckw = {'_implicit_' + flag: ck.get('implicit_' + flag)}
                            if flag == 'safe':
                                ckw['_default_safe'] = default
                            child = node_obj('c', cc, **ckw)
                            kids.append(fde_guard(lambda: FDE(repo).getter(child, sp['getter'])))
                        res.append((own, tuple(kids)))
                    if res[0] != res[1]:
                        bad.append(dict(current=current, parent=parent, default=default, cls=cls, kept=res[0], elided=res[1]))
        run.table('C18.R3:' + flag, rows, 'elision of %s over (current, ancestor value, type default)' % flag)
        if bad:
            b = bad[0]
            run.violation('C18.R3', rep, 'elision of %s' % flag,
                          'an explicit %s=%r under ancestor value %r on a node whose type default is %r is elided, but with the library\'s own flag semantics the re-parsed node / its children then resolve %s differently (kept: node %r children %r; elided: node %r children %r) [%d valuations]' %
                          (flag, b['current'], b['parent'], b['default'], flag, b['kept'][0], b['kept'][1], b['elided'][0], b['elided'][1], len(bad)), witness=bad[:4])
        else:
            run.ok('C18.R3', rep, 'elision of %s (%d rows)' % (flag, rows), 'effective values unchanged for node and children')
    # None is always elided; priority handled by value equality with ancestor / default
    bad = []
    for current in (-1, 0, 1):
        for parent in (None, -1, 0, 1):
            el = _elided(repo, rep, loop, 'priority', current, parent, 0)
            # a child re-parsed below an ancestor with explicit priority p gets p pushed down: eliding is sound iff current == (parent if parent is not None else 0)
            sound = current == (parent if parent is not None else 0)
            if el and not sound:
                bad.append((current, parent))
    if bad:
        run.info('C18.R3', rep, 'elision of priority', 'priority %r below an ancestor priority %r is elided (reachable only for trees produced by merging, not for parsed documents)' % bad[0])


def r4(repo, run):
    fi = repo.func('FunctionNode.ayns.represent')
    rets = [s for s in walk_no_nested(fi.node) if isinstance(s, ast.Return)]
    if len(rets) != 1 or not isinstance(rets[0].value, ast.Tuple) or len(rets[0].value.elts) != 3:
        run.violation('C18.R4', fi, norm(fi.node.body[-1])[:120], 'function node representation is not the single triple (tag, info, argument mapping)')
    else:
        tag, info, data = [norm(e) for e in rets[0].value.elts]
        if data not in ('super()._get_value()', 'self', 'dict(self)', 'ConfigDict._get_value(self)'):
            run.violation('C18.R4', fi, norm(rets[0]), 'the arguments of a function node are not dumped as their mapping (%s): integer keys with gaps / mixed keys do not survive a list or reordered form' % data, node=rets[0])
        elif tag != 'self.ayns.tag' or info != 'self.ayns.get_node_info_to_save()':
            run.violation('C18.R4', fi, norm(rets[0]), 'tag / node info are not the node\'s own', node=rets[0])
        else:
            run.ok('C18.R4', fi, norm(rets[0]), 'argument mapping dumped with its keys')
    rep = repo.func('yaml._node_representer')
    for kind, fn in (('cabc.Mapping', 'represent_mapping'), ('cabc.Sequence', 'represent_sequence')):
        arms = [s for s in ast.walk(rep.node) if isinstance(s, ast.If) and norm(s.test).startswith('isinstance(data, %s)' % kind)]
        okc = arms and any(is_method_call(c, recv='dumper', member=fn) and norm(c.args[1]) == 'data' for c in calls_in(ast.Module(body=arms[0].body, type_ignores=[])))
        if okc:
            run.ok('C18.R4', (rep.file, arms[0].lineno, rep.qualname), 'tagged %s -> dumper.%s(tag, data)' % (kind, fn))
        else:
            run.violation('C18.R4', rep, 'tagged %s' % kind, 'tagged %s data is not written with %s(tag, data)' % (kind, fn))
    base = repo.func('ConfigNode.ayns.get_node_info_to_save')
    keys = {s.targets[0].slice.value: norm(s.value) for s in walk_no_nested(base.node) if isinstance(s, ast.Assign) and isinstance(s.targets[0], ast.Subscript) and isinstance(s.targets[0].slice, ast.Constant)}
    want = {'priority': 'self._priority', 'delete': 'self._delete', 'allow_new': 'self._allow_new', 'safe': 'self._safe'}
    if keys != want or 'copy.copy(self._metadata)' not in norm(base.node):
        run.violation('C18.R4', base, 'get_node_info_to_save %s' % keys, 'saved node info is not {user metadata} + the four explicit flags')
    else:
        run.ok('C18.R4', base, 'node info = copy of user metadata + explicit priority/delete/allow_new/safe')


def r5(repo, run):
    rep = repo.func('yaml._node_representer')
    n = 0
    for c in calls_in(rep.node):
        if is_method_call(c, recv='dumper', member='represent_scalar') and norm(c.args[0]) == 'tag' and len(c.args) > 1:
            conds = [norm(p.test) for p in parent_chain(c) if isinstance(p, ast.If)]
            if 'isinstance(data, ConfigScalar)' in conds:
                n += 1
                if norm(c.args[1]) == 'repr(data._dyn_base(data))':
                    run.ok('C18.R5', (rep.file, c.lineno, rep.qualname), unparse(c), 'repr of the native value')
                else:
                    run.violation('C18.R5', rep, unparse(c), 'a tagged scalar is not written as repr(native value): tagged scalars bypass PyYAML\'s quoting and are re-resolved on parse, so e.g. the string \'no\' comes back as False', node=c)
    if n != 1:
        # the scalar text may be computed in a helper / variable
        alt = [c for c in calls_in(rep.node) if is_method_call(c, recv='dumper', member='represent_scalar') and norm(c.args[0]) == 'tag' and 'repr(' not in norm(c.args[1]) and "''" != norm(c.args[1]) and 'str(data)' != norm(c.args[1])]
        if alt:
            run.violation('C18.R5', rep, unparse(alt[0]), 'a tagged scalar is written from %s, not from repr(native value)' % norm(alt[0].args[1]), node=alt[0])
        else:
            raise AnalysisError('_node_representer: tagged ConfigScalar emission not recognised')
    w = [c for c in calls_in(rep.node) if is_method_call(c, recv='dumper', member='represent_scalar') and norm(c.args[0]) == 'tag']
    for c in w:
        if not any(isinstance(p, ast.With) and 'force_unquoted' in norm(p.items[0].context_expr) for p in parent_chain(c)):
            run.violation('C18.R5', rep, unparse(c), 'tagged scalar emitted outside force_unquoted(): PyYAML would quote the repr() again', node=c)


def check(repo, run, tier):
    g = Guard()
    g(r1, repo, run)
    g(r2, repo, run)
    g(r3, repo, run)
    g(r4, repo, run)
    g(r5, repo, run)
    g.done()


def mutants(repo):
    return [
        Mutant('F15-reverted-safe-unregistered', lambda r: in_module(r, 'yaml', "add_constructor('!safe', _safe_constructor)\n", ""), ['C18.R1']),
        Mutant('writer-swaps-new-notnew', lambda r: in_func(r, 'yaml._node_representer', "            True: '!new',\n            False: '!notnew'", "            True: '!notnew',\n            False: '!new'"), ['C18.R1']),
        Mutant('eval-tag-renamed-on-write', lambda r: in_func(r, 'EvalNode.ayns.tag', "return '!eval'", "return '!evaluate'"), ['C18.R1']),
        Mutant('F16-reverted-null-literal', lambda r: in_func(r, 'yaml._node_representer', "return dumper.represent_scalar(tag, '', style='')", "return dumper.represent_scalar('!null', '', style='')"), ['C18.R2']),
        Mutant('elision-over-all-metadata', lambda r: in_func(r, 'yaml._node_representer', "    to_infer = list(tags_to_infer.keys())\n", "    to_infer = list(metadata.keys())\n"), ['C18.R3b']),
        Mutant('elide-safe-against-parent-only', lambda r: in_func(r, 'yaml._node_representer', "            if current == parent or current == default:", "            if current == parent or current == default or (f == 'safe' and current is True):"), ['C18.R3']),
        Mutant('call-args-dumped-as-list', lambda r: in_func(r, 'FunctionNode.ayns.represent', "super()._get_value()", "[v for _, v in sorted(self.items())]"), ['C18.R4']),
        Mutant('tagged-scalar-verbatim', lambda r: in_func(r, 'yaml._node_representer', "return dumper.represent_scalar(tag, repr(data._dyn_base(data)))", "return dumper.represent_scalar(tag, str(data._dyn_base(data)))"), ['C18.R5']),
        Mutant('neutral-comment', lambda r: in_func(r, 'yaml._node_representer', "    to_infer = list(tags_to_infer.keys())\n", "    to_infer = list(tags_to_infer.keys())  # flags only\n"), neutral=True),
    ]
