"""path-base typing rules shared by C04 / C05 / C16"""
import ast

from .. import pathbase
from ..report import AnalysisError
from ..srcmodel import unparse, norm, calls_in
from .common import is_method_call, get_kw, recv_of


def merge_functions(repo):
    out = []
    for name in ('on_merge_impl', 'on_premerge_impl'):
        out += repo.cha(name, ayns=True)
    return out


def typed_lookups(repo, run, rule, only=None, floor=7):
    n = 0
    for fi in merge_functions(repo):
        if only is not None and fi.qualname not in only:
            continue
        user = fi.cls is not None and fi.cls.name == 'PrevNode'
        for lk in pathbase.analyse(fi, user_path_self=user):
            n += 1
            where = (lk.fi.file, lk.call.lineno, lk.fi.qualname)
            if lk.ok:
                run.ok(rule, where, lk.text(), 'receiver %s needs %s, path base %s' % (lk.role, lk.need, lk.base))
            elif lk.base.startswith('BAD('):
                run.violation(rule, lk.fi, lk.text(), 'path arithmetic mixes bases: %s' % lk.base[4:-1], node=lk.call)
            elif lk.base == 'UNKNOWN':
                raise AnalysisError('%s %s: path expression %s of lookup %s cannot be typed' % (rule, lk.fi.qualname, unparse(lk.call.args[0]), lk.text()))
            else:
                if lk.role == 'PEER':
                    msg = 'a path with base %s (absolute / prefixed with the location of the node being merged) is looked up inside `%s`, which is itself located at that path; the lookup needs a path relative to it' % (lk.base, lk.receiver)
                else:
                    msg = 'a path with base %s is looked up on the merge root `%s`, which needs an absolute path' % (lk.base, lk.receiver)
                run.violation(rule, lk.fi, lk.text(), msg, node=lk.call)
    if only is None and n < floor:
        raise AnalysisError('%s: only %d path lookups typed (floor %d)' % (rule, n, floor))
    return n


def removed_set_bases(repo, run, rule):
    """the `removed` set filled by filter_nodes(prefix=P) and the paths walked by _require_all_new(Q, exceptions=removed)
    have the same base iff P == Q"""
    fi = repo.func('ComposedNode.ayns.on_merge_impl')
    filt = [c for c in calls_in(fi.node) if is_method_call(c, recv='self', member='filter_nodes', ayns=True) and get_kw(c, 'removed') is not None]
    req = [c for c in calls_in(fi.node) if is_method_call(c, member='_require_all_new', ayns=True) and get_kw(c, 'exceptions') is not None]
    if len(filt) != 1 or len(req) != 1:
        raise AnalysisError('removed-set idiom (filter_nodes(removed=...) / _require_all_new(exceptions=...)) not recognised')
    p = get_kw(filt[0], 'prefix')
    q = req[0].args[0] if req[0].args else None
    same_set = norm(get_kw(filt[0], 'removed')) == norm(get_kw(req[0], 'exceptions'))
    if p is None or q is None or norm(p) != norm(q) or not same_set:
        run.violation(rule, fi, unparse(req[0])[:120], 'paths recorded as removed (prefix %s) and paths checked for novelty (prefix %s) have different bases' % (norm(p) if p is not None else None, norm(q) if q is not None else None), node=req[0])
    else:
        run.ok(rule, (fi.file, req[0].lineno, fi.qualname), 'removed set vs _require_all_new walk', 'both prefixed with %s' % norm(p))
    fn = repo.func('ComposedNode.ayns.filter_nodes')
    adds = [c for c in calls_in(fn.node) if is_method_call(c, recv='removed', member='add', ayns=False)]
    if not adds or norm(adds[0].args[0]) != 'prefix + [name]':
        raise AnalysisError('filter_nodes: removed.add(prefix + [name]) not recognised')
    rec = [c for c in calls_in(fn.node) if is_method_call(c, member='filter_nodes', ayns=True)]
    if not rec or norm(get_kw(rec[0], 'prefix')) != 'child_path' or norm(get_kw(rec[0], 'removed') or ast.Constant(value=None)) != 'removed':
        run.violation(rule, fn, unparse(rec[0]) if rec else 'recursion', 'filter_nodes does not thread prefix=child_path / removed through its recursion', node=rec[0] if rec else None)
    else:
        run.ok(rule, (fn.file, rec[0].lineno, fn.qualname), unparse(rec[0])[:100], 'recursion extends the prefix and shares the removed set')
