"""path-base typing rules shared by C04 / C05 / C16"""
import ast

from .. import pathbase
from ..report import AnalysisError
from ..srcmodel import unparse, norm, calls_in
from .common import is_method_call, get_kw, recv_of


def merge_functions(repo):
    out = []
    for name in ('on_merge_impl', 'on_premerge_impl'):
        out += repo.cha(name, ayns=True)
    return out


def typed_lookups(repo, run, rule, only=None, floor=7):
    n = 0
    for fi in merge_functions(repo):
        if only is not None and fi.qualname not in only:
            continue
        user = fi.cls is not None and fi.cls.name == 'PrevNode'
        for lk in pathbase.analyse(repo, fi, user_path_self=user):
            n += 1
            where = (lk.fi.file, getattr(lk.call, 'lineno', lk.fi.line), lk.fi.qualname)
            if lk.ok:
                run.ok(rule, where, lk.text(), 'receiver %s needs %s, path base %s' % (lk.role, lk.need, lk.base))
            elif lk.base.startswith('BAD('):
                run.violation(rule, lk.fi, lk.text(), 'path arithmetic mixes bases: %s' % lk.base[4:-1], node=lk.call)
            elif lk.base == 'UNKNOWN':
                raise AnalysisError('%s %s: path expression %s of lookup %s cannot be typed' % (rule, lk.fi.qualname, lk.ev.args[0].text[:60], lk.text()))
            else:
                if lk.role == 'PEER':
                    msg = 'a path with base %s (absolute / prefixed with the location of the node being merged) is looked up inside `%s`, which is itself located at that path; the lookup needs a path relative to it' % (lk.base, lk.receiver)
                else:
                    msg = 'a path with base %s is looked up on the merge root `%s`, which needs an absolute path' % (lk.base, lk.receiver)
                run.violation(rule, lk.fi, lk.text(), msg, node=lk.call)
    if only is None and n < floor:
        raise AnalysisError('%s: only %d path lookups typed (floor %d)' % (rule, n, floor))
    return n


def removed_set_bases(repo, run, rule):
    """the `removed` set filled by filter_nodes(prefix=P) and the paths walked by _require_all_new(Q, exceptions=removed)
    have the same base iff P == Q (decided on the traces of on_merge_impl and filter_nodes)"""
    from . import mergetrace as mt
    from . import tr
    fi, paths = mt.merge_paths(repo)
    n = 0
    reported = set()
    for p in paths:
        filt = [e for e in p.events if e.kind == 'call' and e.attr == 'filter_nodes' and e.kw.get('removed') is not None]
        req = [e for e in p.events if e.kind == 'call' and e.attr == '_require_all_new' and e.kw.get('exceptions') is not None]
        if not req:
            continue
        if len(filt) != 1 or len(req) != 1:
            raise AnalysisError('removed-set idiom (filter_nodes(removed=...) / _require_all_new(exceptions=...)) not recognised')
        n += 1
        f, r = filt[0], req[0]
        pfx = f.kw.get('prefix')
        q = r.args[0] if r.args else None
        same_set = f.kw['removed'] is r.kw['exceptions'] or (f.kw['removed'].text == r.kw['exceptions'].text and not f.kw['removed'].text.endswith('()'))
        if not same_set and f.kw['removed'].text == r.kw['exceptions'].text:
            raise AnalysisError('removed-set idiom: cannot tell whether filter_nodes and _require_all_new share one set')
        if pfx is None or q is None or pfx.text != q.text or not same_set:
            if id(r.node) not in reported:
                reported.add(id(r.node))
                run.violation(rule, tr.where(fi, r), r.callee[:120], 'paths recorded as removed (prefix %s) and paths checked for novelty (prefix %s) have different bases' % (pfx.text if pfx is not None else None, q.text if q is not None else None))
        elif ('ok', id(r.node)) not in reported:
            reported.add(('ok', id(r.node)))
            run.ok(rule, tr.where(fi, r), 'removed set vs _require_all_new walk', 'both prefixed with %s' % pfx.text)
    if not n:
        raise AnalysisError('removed-set idiom (filter_nodes(removed=...) / _require_all_new(exceptions=...)) not recognised')
    fn = repo.func('ComposedNode.ayns.filter_nodes')
    params = fn.params()
    if 'prefix' not in params or 'removed' not in params:
        raise AnalysisError('filter_nodes: parameters prefix / removed not found')
    fpaths = tr.paths_of(repo, fn, no_inline={'named_children', 'remove_child', 'set_child'}, follow_exceptions=False)
    adds = recs = 0
    bad = None
    for p in fpaths:
        for e in p.events:
            if e.kind == 'call' and e.attr == 'add' and e.recv is not None and e.recv.text == 'removed':
                adds += 1
                x = e.args[0].ast if e.args else None
                if not (isinstance(x, ast.BinOp) and isinstance(x.op, ast.Add) and pathbase.base(x, {'prefix': 'P'}) == 'P' and isinstance(x.right, (ast.List, ast.Tuple)) and len(x.right.elts) == 1):
                    bad = (e, 'a removed path is recorded as %s, not as prefix + [name]' % (e.args[0].text[:60] if e.args else None))
            if e.kind == 'call' and e.attr == 'filter_nodes' and e.recv is not None and e.recv.text != 'self.ayns':
                recs += 1
                pf = e.kw.get('prefix') or (e.args[1] if len(e.args) > 1 else None)
                rm = e.kw.get('removed') or (e.args[2] if len(e.args) > 2 else None)
                x = pf.ast if pf is not None else None
                if not (isinstance(x, ast.BinOp) and isinstance(x.op, ast.Add) and pathbase.base(x, {'prefix': 'P'}) == 'P' and isinstance(x.right, (ast.List, ast.Tuple)) and len(x.right.elts) == 1) \
                        or rm is None or rm.text != 'removed':
                    bad = (e, 'filter_nodes does not thread prefix=prefix + [name] / removed through its recursion')
    # (which paths end up in the removed set is decided by evaluation on a concrete tree with a prefix: unitrules.filter_nodes_table;
    # the shape read off the trace is only reported when it is the recognised one)
    from . import unitrules
    unitrules.filter_nodes_table(repo, run, rule)
    if not adds or not recs or bad:
        run.info(rule, fn, 'filter_nodes: removed.add(...) / recursion', 'not in the recognised shape on the trace; decided by the evaluated table')
    else:
        run.ok(rule, fn, 'filter_nodes: removed.add(prefix + [name]); recursion with prefix + [name] and the same set', 'recursion extends the prefix and shares the removed set')


PATH_APIS = {'get_node', 'remove_node', 'get_first_not_missing_node', 'get_list_path', '_get_node', '_remove_node', 'replace_node'}


def no_unpacked_list_paths(repo, run, rule):
    """the path-taking APIs accept either one path object or its components as varargs; `api(*p)` with p a *list path* hands the
    components over one by one, and NodePath.get_list_path re-parses a single str component as dotted path text - the lookup then
    depends on the depth of the node and on the spelling of its key.  Only forwarding of the caller's own *varargs is accepted."""
    n = 0
    for fi in repo.all_functions(include_nested=True):
        va = fi.node.args.vararg.arg if getattr(fi.node, 'args', None) is not None and fi.node.args.vararg is not None else None
        outer_va = set()
        o = fi.outer
        while o is not None:
            if o.node.args.vararg is not None:
                outer_va.add(o.node.args.vararg.arg)
            o = o.outer
        for c in calls_in(fi.node, nested=False):
            name = c.func.attr if isinstance(c.func, ast.Attribute) else (c.func.id if isinstance(c.func, ast.Name) else None)
            if name not in PATH_APIS:
                continue
            for a in c.args:
                if not isinstance(a, ast.Starred):
                    continue
                n += 1
                src = norm(a.value)
                if isinstance(a.value, ast.Name) and (a.value.id == va or a.value.id in outer_va):
                    run.ok(rule, (fi.file, c.lineno, fi.qualname), unparse(c)[:90], 'forwards the caller\'s own varargs')
                else:
                    run.violation(rule, fi, unparse(c)[:120], 'the list path %s is unpacked into the varargs of %s: a path of exactly one component is re-parsed as dotted path text (keys containing `.`, `[`, `-`, spaces ... address another node or fail), longer paths are not - the result depends on nesting depth and key spelling' % (src[:40], name), node=c)
    if n < 3:
        raise AnalysisError('%s: only %d star-forwarded path calls found' % (rule, n))
