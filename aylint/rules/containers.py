"""two-store pairing rules shared by C17 / C19 / C01"""
from .. import effects
from ..report import AnalysisError
from ..srcmodel import unparse, norm

DICT_OPS = ['__init__', '__setitem__', '__delitem__', '__setattr__', '__delattr__', 'pop', 'update', 'setdefault', 'clear',
            'ayns.set_child', 'ayns.remove_child', 'ayns.rename_child']
LIST_OPS = ['__init__', '__setitem__', '__delitem__', 'append', 'insert', 'extend', 'remove', 'pop', 'clear',
            'ayns.set_child', 'ayns.remove_child', 'ayns.rename_child']
# builtin mutators the property does not quantify over: reported as INFO only
UNNAMED = {'dict': ['popitem', '__ior__'], 'list': ['sort', 'reverse', '__iadd__', '__imul__']}


def ops_for(repo, cls):
    return DICT_OPS if 'dict' in repo.mro(cls) else LIST_OPS


def pairing(repo, run, rule, classes=('ConfigDict', 'ConfigList'), ops=None, rule_override='C17.R2'):
    total_paths = 0
    seen = getattr(run, '_pairing_seen', None)
    if seen is None:
        seen = run._pairing_seen = set()
    for cls in classes:
        an = effects.Analyzer(repo, cls)
        for op in (ops or ops_for(repo, cls)):
            ayns = op.startswith('ayns.')
            name = op[5:] if ayns else op
            fi = an.lookup(name, ayns=ayns)
            if fi is None:
                if rule_override:
                    run.violation(rule_override, (repo.classes[cls].module.relpath, repo.classes[cls].node.lineno, cls), '%s.%s' % (cls, op),
                                  'the %s operation `%s` is not overridden: the built-in implementation updates the %s storage only and leaves the child map stale' % (an.base, op, an.base))
                continue
            owner = fi.cls.name
            if rule_override and owner not in repo.mro(cls)[:repo.mro(cls).index('ComposedNode')] and name in ('rename_child', 'set_child', 'remove_child') and ayns:
                # generic child operation inherited from ComposedNode: it cannot know about the built-in storage
                pass
            paths = an.paths(fi)
            bad = []
            n = 0
            for p in paths:
                if p.end == 'raise' and not p.effs:
                    continue
                n += 1
                ok, why = effects.balanced(p, an.base)
                if not ok:
                    bad.append((why, p))
            total_paths += n
            inh = '' if owner == cls else ' [inherited from %s]' % owner
            if bad and (fi.qualname, bad[0][0]) in seen:
                run.info(rule, (fi.file, fi.line, '%s.%s' % (cls, op)), '%s.%s%s' % (cls, op, inh), 'same unbalanced implementation as already reported for its defining class')
            elif bad:
                why, p = bad[0]
                seen.add((fi.qualname, why))
                run.violation(rule, (fi.file, fi.line, '%s.%s' % (cls, op)), '%s.%s%s' % (cls, op, inh),
                              'the two stores are not updated together on %d of %d paths: %s (effects %s; path facts %s)' % (len(bad), n, why, p.effs, p.facts[-3:]))
            else:
                run.ok(rule, (fi.file, fi.line, '%s.%s' % (cls, op)), '%s.%s%s' % (cls, op, inh), '%d paths balanced' % n)
    return total_paths


def unnamed_info(repo, run, rule):
    for cls in ('ConfigDict', 'ConfigList'):
        an = effects.Analyzer(repo, cls)
        for op in UNNAMED[an.base]:
            if an.lookup(op) is None:
                run.info(rule, (repo.classes[cls].module.relpath, repo.classes[cls].node.lineno, cls), '%s.%s not overridden' % (cls, op),
                         'built-in mutator outside the operations the property names; it bypasses the child map')
        if an.lookup('clear', ayns=True).cls.name == 'ComposedNode':
            run.info(rule, (repo.classes[cls].module.relpath, repo.classes[cls].node.lineno, cls), '%s.ayns.clear inherited' % cls, 'clears the child map only (not named by the property)')
