"""C11 - evaluation yields plain Python data and leaves the source tree reusable."""
import ast

from ..mutate import Mutant, in_func, delete_stmt
from ..report import AnalysisError
from ..srcmodel import unparse, norm, walk_no_nested, calls_in
from .common import is_method_call, cfg_of, find_stmt_node
from . import evalrules as er
from . import c01
from . import tr

from . import unitrules
from .common import Guard  # noqa: E402

PROP = 'C11'
DECIDED = [
    'R1: Config evaluates a deep copy: the tree handed to EvalContext.evaluate is copy.deepcopy of the tree retained as _source.',
    'R2: ConfigNode.ayns.on_evaluate rejects (assert) a result that is the node itself or any ConfigNode on its only return path; every evaluation goes through it (C10.R2).',
    'R3: result kinds: mappings -> Bunch(...), lists -> list(...), with keys and values both evaluated through the context (also in argument evaluation of function nodes); EvalNode re-evaluates a returned node; Bunch.__getattr__ returns self[name] itself.',
    'R4: scalar native-type table (C01.R4).',
]
UNDECIDED = ['equality of a re-evaluation as data;', 'user callables returning shared mutable objects;', 'mutation of nodes by user code through the ayns.ctx handle.']
ASSUMPTIONS = ['assert statements are enabled (python -O would disable the non-node gate)']


def r2(repo, run):
    fi = repo.func('ConfigNode.ayns.on_evaluate')
    paths = [p for p in tr.paths_of(repo, fi, no_inline={'on_evaluate_impl'}, follow_exceptions=False) if p.status == 'return']
    if not paths:
        raise AnalysisError('on_evaluate: no returning path')
    missing = set()
    for p in paths:
        impl = [e for e in p.events if tr.is_call(e, attr='on_evaluate_impl', recv='self.ayns')]
        if len(impl) != 1 or p.ret is None or p.ret.text != impl[0].result.text:
            raise AnalysisError('on_evaluate: result is not self.ayns.on_evaluate_impl(...)')
        R = p.ret.text
        if not tr.fact(p, '%s is self' % R, False):
            missing.add('%s is not self' % 'result')
        if not tr.fact(p, 'isinstance(%s, ConfigNode)' % R, False):
            missing.add('not isinstance(result, ConfigNode)')
    if missing:
        run.violation('C11.R2', fi, 'result contract of on_evaluate', 'the evaluated value is returned without checking `%s`: a node object can leak into the evaluated config' % '` / `'.join(sorted(missing)))
    else:
        run.ok('C11.R2', fi, 'every returning path established: result is not self, not isinstance(result, ConfigNode)', 'no node leaves an evaluation')


def r3(repo, run):
    c01.plain_container_eval(repo, run, 'C11.R3')
    # every comprehension over named_children in evaluation code evaluates key and value
    n = 0
    for fi in repo.all_functions(include_nested=False):
        if fi.cls is None or not repo.is_subclass(fi.cls.name, 'ConfigNode'):
            continue
        for comp in ast.walk(fi.node):
            if isinstance(comp, (ast.DictComp, ast.GeneratorExp, ast.ListComp)) and any('named_children()' in norm(g.iter) or norm(g.iter) in ('self.items()', 'self._children.items()') for g in comp.generators):
                if 'evaluate_node' not in norm(comp):
                    continue
                n += 1
                tgt = comp.generators[0].target
                if not isinstance(tgt, ast.Tuple):
                    continue
                k = tgt.elts[0].id
                if isinstance(comp, ast.DictComp):
                    key_expr = comp.key
                elif isinstance(comp.elt, ast.Tuple) and len(comp.elt.elts) == 2:
                    key_expr = comp.elt.elts[0]
                else:
                    continue   # list of values
                if isinstance(key_expr, ast.Name) and key_expr.id == k:
                    run.violation('C11.R3', fi, norm(comp)[:160], 'mapping keys are node objects; this comprehension evaluates the values but passes the key nodes through: they leak into evaluated data (partial keywords / dicts built by targets)', node=comp)
                else:
                    run.ok('C11.R3', (fi.file, comp.lineno, fi.qualname), norm(comp)[:120], 'keys evaluated too')
    ev = repo.func('EvalNode.ayns.on_evaluate_impl')
    from .c12 import ENI, GuardedRun
    run = GuardedRun(run, ev)
    n = 0
    bad = None
    for p in tr.paths_of(repo, ev, no_inline=ENI, follow_exceptions=False):
        if p.status != 'return' or p.ret is None:
            continue
        evals = [e for e in p.events if e.kind == 'call' and e.callee == 'eval']
        if len(evals) != 1:
            raise AnalysisError('EvalNode.on_evaluate_impl: a returning path without exactly one eval(...)')
        R = evals[0].result.text
        n += 1
        is_node = [pol for t, pol in p.facts if t == 'isinstance(%s, ConfigNode)' % R]
        if p.ret.text == R:
            if not is_node or is_node[0] is not False:
                bad = p
        else:
            re_ = [e for e in p.events if e.kind == 'call' and e.attr == 'evaluate_node' and e.args and e.args[0].text == R and e.result is not None and e.result.text == p.ret.text]
            if not re_:
                raise AnalysisError('EvalNode.on_evaluate_impl: returned value %s not recognised' % p.ret.text[:60])
    if not n:
        raise AnalysisError('EvalNode.on_evaluate_impl: no returning path')
    if bad is not None:
        run.violation('C11.R3', ev, 'node returned by evaluated code', 'a node returned by !eval code is not evaluated again through the context')
    else:
        run.ok('C11.R3', ev, 'the result of eval(...) is returned as is only when it is not a ConfigNode; otherwise ctx.evaluate_node(result, path)')
    ga = repo.func('Bunch.__getattr__')
    gp = [p for p in tr.paths_of(repo, ga, follow_exceptions=False) if p.status == 'return']
    badg = [p for p in gp if p.ret is None or p.ret.text != 'self[%s]' % ga.params()[1]]
    if badg or not gp:
        run.violation('C11.R3', ga, ('return ' + badg[0].ret.text[:60]) if badg and badg[0].ret is not None else 'no return', 'attribute access does not return the stored object itself (cfg.a is cfg[\'a\'] breaks; writes through one spelling are lost)')
    else:
        run.ok('C11.R3', ga, 'Bunch.__getattr__ returns self[name]')
    for cls in ('Bunch',):
        if repo.resolve(cls, '__getitem__') is not None:
            run.violation('C11.R3', repo.resolve(cls, '__getitem__'), 'Bunch.__getitem__ override', 'item access on evaluated mappings is overridden')


def check(repo, run, tier):
    g = Guard()
    g(er.evaluate_a_copy, repo, run, 'C11.R1')
    g(r2, repo, run)
    g(er.who_may_evaluate, repo, run, 'C11.R2')
    g(r3, repo, run)
    g(_r4, repo, run)
    g(unitrules.eval_namespace_views, repo, run, 'C11.R3')
    g.done()


def _r4(repo, run):
    from .c10 import _as
    _as(run, 'C01.R4', 'C11.R4', lambda: c01.r4(repo, run))


def mutants(repo):
    return [
        Mutant('eval-code-sees-the-raw-tree', lambda r: in_func(r, 'EvalNode.ayns.on_evaluate_impl', "'cfg': ctx.ecfg", "'cfg': ctx.cfg"), ['C11.R3']),
        Mutant('shallow-copy-before-evaluation', lambda r: in_func(r, 'Config.__init__', "pre_evaluate = copy.deepcopy(config_dict)", "pre_evaluate = copy.copy(config_dict)"), ['C11.R1']),
        Mutant('evaluate-the-source-itself', lambda r: in_func(r, 'Config.__init__', "evaluated = eval_ctx.evaluate(pre_evaluate)", "evaluated = eval_ctx.evaluate(config_dict)"), ['C11.R1']),
        Mutant('non-node-gate-removed', lambda r: delete_stmt(r, 'ConfigNode.ayns.on_evaluate', lambda t: t.startswith('assert not isinstance(evaluated, ConfigNode)')), ['C11.R2']),
        Mutant('call-args-keys-not-evaluated', lambda r: in_func(r, 'CallNode.ayns.on_evaluate_impl', "args = ConfigDict.ayns.on_evaluate_impl(self, path, ctx)", "args = { name: ctx.evaluate_node(arg, path + [name]) for name, arg in self.ayns.named_children() }"), ['C11.R3']),
        Mutant('bunch-getattr-wraps', lambda r: in_func(r, 'Bunch.__getattr__', "        return self[name]", "        value = self[name]\n        if type(value) is dict:\n            return Bunch(value)\n        return value"), ['C11.R3']),
        Mutant('eval-returns-node-unevaluated', lambda r: in_func(r, 'EvalNode.ayns.on_evaluate_impl', "        if isinstance(ret, ConfigNode):", "        if False:"), ['C11.R3']),
        Mutant('configbool-leaks', lambda r: in_func(r, 'ConfigScalar._get_native_value', "if self._dyn_base in [configbool, ConfigNone]:", "if self._dyn_base in [ConfigNone]:"), ['C11.R4']),
        Mutant('neutral-rename-copy-var', lambda r: in_func(r, 'Config.__init__', "pre_evaluate", "to_evaluate", None), neutral=True),
    ]
