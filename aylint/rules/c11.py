"""C11 - evaluation yields plain Python data and leaves the source tree reusable."""
import ast

from ..mutate import Mutant, in_func, delete_stmt
from ..report import AnalysisError
from ..srcmodel import unparse, norm, walk_no_nested, calls_in
from .common import is_method_call, cfg_of, find_stmt_node
from . import evalrules as er
from . import c01

PROP = 'C11'
DECIDED = [
    'R1: Config evaluates a deep copy: the tree handed to EvalContext.evaluate is copy.deepcopy of the tree retained as _source.',
    'R2: ConfigNode.ayns.on_evaluate rejects (assert) a result that is the node itself or any ConfigNode on its only return path; every evaluation goes through it (C10.R2).',
    'R3: result kinds: mappings -> Bunch(...), lists -> list(...), with keys and values both evaluated through the context (also in argument evaluation of function nodes); EvalNode re-evaluates a returned node; Bunch.__getattr__ returns self[name] itself.',
    'R4: scalar native-type table (C01.R4).',
]
UNDECIDED = ['equality of a re-evaluation as data;', 'user callables returning shared mutable objects;', 'mutation of nodes by user code through the ayns.ctx handle.']
ASSUMPTIONS = ['assert statements are enabled (python -O would disable the non-node gate)']


def r2(repo, run):
    fi = repo.func('ConfigNode.ayns.on_evaluate')
    rets = [s for s in walk_no_nested(fi.node) if isinstance(s, ast.Return)]
    if len(rets) != 1 or not isinstance(rets[0].value, ast.Name):
        raise AnalysisError('on_evaluate: single `return <name>` not recognised')
    v = rets[0].value.id
    asserts = [norm(s.test) for s in fi.node.body if isinstance(s, ast.Assert) and s.lineno < rets[0].lineno]
    raises = [norm(s.test) for s in fi.node.body if isinstance(s, ast.If) and any(isinstance(b, ast.Raise) for b in s.body)]
    need = {'%s is not self' % v: False, 'not isinstance(%s, ConfigNode)' % v: False}
    for a in asserts:
        if a in need:
            need[a] = True
    for r in raises:
        if r == '%s is self' % v:
            need['%s is not self' % v] = True
        if r == 'isinstance(%s, ConfigNode)' % v:
            need['not isinstance(%s, ConfigNode)' % v] = True
    missing = [k for k, ok in need.items() if not ok]
    defs = [s for s in fi.node.body if isinstance(s, ast.Assign) and norm(s.targets[0]) == v]
    if missing:
        run.violation('C11.R2', fi, 'result contract of on_evaluate', 'the evaluated value is returned without checking `%s`: a node object can leak into the evaluated config' % '` / `'.join(missing))
    elif len(defs) != 1 or not is_method_call(defs[0].value, recv='self', member='on_evaluate_impl', ayns=True):
        raise AnalysisError('on_evaluate: result is not self.ayns.on_evaluate_impl(...)')
    else:
        run.ok('C11.R2', fi, 'assert %s; assert %s; return %s' % (asserts[0], asserts[1] if len(asserts) > 1 else '', v), 'no node leaves an evaluation')


def r3(repo, run):
    c01.plain_container_eval(repo, run, 'C11.R3')
    # every comprehension over named_children in evaluation code evaluates key and value
    n = 0
    for fi in repo.all_functions(include_nested=False):
        if fi.cls is None or not repo.is_subclass(fi.cls.name, 'ConfigNode'):
            continue
        for comp in ast.walk(fi.node):
            if isinstance(comp, (ast.DictComp, ast.GeneratorExp, ast.ListComp)) and any('named_children()' in norm(g.iter) or norm(g.iter) in ('self.items()', 'self._children.items()') for g in comp.generators):
                if 'evaluate_node' not in norm(comp):
                    continue
                n += 1
                tgt = comp.generators[0].target
                if not isinstance(tgt, ast.Tuple):
                    continue
                k = tgt.elts[0].id
                if isinstance(comp, ast.DictComp):
                    key_expr = comp.key
                elif isinstance(comp.elt, ast.Tuple) and len(comp.elt.elts) == 2:
                    key_expr = comp.elt.elts[0]
                else:
                    continue   # list of values
                if isinstance(key_expr, ast.Name) and key_expr.id == k:
                    run.violation('C11.R3', fi, norm(comp)[:160], 'mapping keys are node objects; this comprehension evaluates the values but passes the key nodes through: they leak into evaluated data (partial keywords / dicts built by targets)', node=comp)
                else:
                    run.ok('C11.R3', (fi.file, comp.lineno, fi.qualname), norm(comp)[:120], 'keys evaluated too')
    ev = repo.func('EvalNode.ayns.on_evaluate_impl')
    re_ev = [s for s in walk_no_nested(ev.node) if isinstance(s, ast.If) and norm(s.test) == 'isinstance(ret, ConfigNode)']
    if not re_ev or not any(is_method_call(c, member='evaluate_node') for c in calls_in(re_ev[0])):
        run.violation('C11.R3', ev, 'node returned by evaluated code', 'a node returned by !eval code is not evaluated again through the context')
    else:
        run.ok('C11.R3', (ev.file, re_ev[0].lineno, ev.qualname), 'if isinstance(ret, ConfigNode): ret = ctx.evaluate_node(ret, path)')
    ga = repo.func('Bunch.__getattr__')
    rets = [s for s in walk_no_nested(ga.node) if isinstance(s, ast.Return)]
    bad = [r for r in rets if norm(r.value) != 'self[%s]' % ga.params()[1]]
    if bad or not rets:
        run.violation('C11.R3', ga, norm(bad[0]) if bad else 'no return', 'attribute access does not return the stored object itself (cfg.a is cfg[\'a\'] breaks; writes through one spelling are lost)', node=bad[0] if bad else None)
    else:
        run.ok('C11.R3', ga, 'Bunch.__getattr__ returns self[name]')
    for cls in ('Bunch',):
        if repo.resolve(cls, '__getitem__') is not None:
            run.violation('C11.R3', repo.resolve(cls, '__getitem__'), 'Bunch.__getitem__ override', 'item access on evaluated mappings is overridden')


def check(repo, run, tier):
    er.evaluate_a_copy(repo, run, 'C11.R1')
    r2(repo, run)
    er.who_may_evaluate(repo, run, 'C11.R2')
    r3(repo, run)
    c01.r4(repo, run) if False else _r4(repo, run)


def _r4(repo, run):
    from .c10 import _as
    _as(run, 'C01.R4', 'C11.R4', lambda: c01.r4(repo, run))


def mutants(repo):
    return [
        Mutant('shallow-copy-before-evaluation', lambda r: in_func(r, 'Config.__init__', "pre_evaluate = copy.deepcopy(config_dict)", "pre_evaluate = copy.copy(config_dict)"), ['C11.R1']),
        Mutant('evaluate-the-source-itself', lambda r: in_func(r, 'Config.__init__', "evaluated = eval_ctx.evaluate(pre_evaluate)", "evaluated = eval_ctx.evaluate(config_dict)"), ['C11.R1']),
        Mutant('non-node-gate-removed', lambda r: delete_stmt(r, 'ConfigNode.ayns.on_evaluate', lambda t: t.startswith('assert not isinstance(evaluated, ConfigNode)')), ['C11.R2']),
        Mutant('call-args-keys-not-evaluated', lambda r: in_func(r, 'CallNode.ayns.on_evaluate_impl', "args = ConfigDict.ayns.on_evaluate_impl(self, path, ctx)", "args = { name: ctx.evaluate_node(arg, path + [name]) for name, arg in self.ayns.named_children() }"), ['C11.R3']),
        Mutant('bunch-getattr-wraps', lambda r: in_func(r, 'Bunch.__getattr__', "        return self[name]", "        value = self[name]\n        if type(value) is dict:\n            return Bunch(value)\n        return value"), ['C11.R3']),
        Mutant('eval-returns-node-unevaluated', lambda r: in_func(r, 'EvalNode.ayns.on_evaluate_impl', "        if isinstance(ret, ConfigNode):", "        if False:"), ['C11.R3']),
        Mutant('configbool-leaks', lambda r: in_func(r, 'ConfigScalar._get_native_value', "if self._dyn_base in [configbool, ConfigNone]:", "if self._dyn_base in [ConfigNone]:"), ['C11.R4']),
        Mutant('neutral-rename-copy-var', lambda r: in_func(r, 'Config.__init__', "pre_evaluate", "to_evaluate", None), neutral=True),
    ]
