"""C03 - priorities: the highest-priority writer wins, the latest among equals."""
from ..mutate import Mutant, in_func, delete_stmt
from . import mergerules as mr
from . import unitrules
from .tagtable import check_flag_tags

from .common import Guard  # noqa: E402

PROP = 'C03'
DECIDED = [
    'R1: has_priority_over truth table (greater/less/equal x if_equal) with None = STANDARD and WEAK<STANDARD<FORCE.',
    'R2: winner selection tables: leaf merge returns the older node iff it has strictly higher priority and calls winner._replace_other(loser); the container merge tail calls self._replace_self(other) iff p(other) >= p(self); function-node merges let the newer node win ties.',
    'R3: _replace_self adopts other._priority, _replace_other keeps its own; survivor metadata is {**loser, **winner}.',
    'R4: every field assigned to an already-built child on adoption (_kwargs_to_inherit) is pushed to all descendants by a recursive propagation called from the adopt branch; R4b: node-local constructor arguments are removed before children are built and are disjoint from the inheritable ones.',
    'R4c: children attached later (set_child) receive only the implicit flag channel from the container, never its priority.',
    'R5: !force / !weak constructors set exactly priority=FORCE / WEAK on a plain node.',
]
UNDECIDED = ['behaviour over >= 3-stage histories as data (which writer a concrete document sequence selects);', 'type promotion (_maybe_promote).']
ASSUMPTIONS = ['priorities range over {None, WEAK, STANDARD, FORCE} (enforced by ConfigNode.__init__)']


def check(repo, run, tier):
    g = Guard()
    g(mr.has_priority_over_table, repo, run, 'C03.R1')
    g(mr.leaf_winner_table, repo, run, 'C03.R2')
    g(mr.composed_winner_table, repo, run, 'C03.R2')
    g(mr.function_node_priority_calls, repo, run, 'C03.R2')
    g(mr.survivor_fields, repo, run, 'C03.R3')
    names = g(mr.inheritance_reach, repo, run, 'C03.R4')
    if names is not None:
        g(mr.node_local_kwargs, repo, run, 'C03.R4b', names)
    g(mr.child_kwargs_keys, repo, run, 'C03.R4c')
    g(check_flag_tags, repo, run, 'C03.R5', tags={'!force', '!weak'})
    g(unitrules.list_prefilter_guard, repo, run, 'C03.R5')
    g(unitrules.adoption_order_table, repo, run, 'C03.R4')
    g(unitrules.adoption_keeps_own_priority, repo, run, 'C03.R4c')
    g(unitrules.replace_self_propagates_result, repo, run, 'C03.R3')
    g.done()


def _early_propagation(r):
    ov = in_func(r, 'ConfigNodeMeta.__call__', "                if 'priority' in kwargs:\n                    value._propagate_priority()\n", "")
    r2 = r.with_overrides(ov)
    return in_func(r2, 'ConfigNodeMeta.__call__', "                for arg_name in _kwargs_to_inherit:", "                if 'priority' in kwargs:\n                    value._propagate_priority()\n                for arg_name in _kwargs_to_inherit:")


def mutants(repo):
    return [
        Mutant('consumed-node-repropagated', lambda r: in_func(r, 'ConfigNode._replace_self', "        ret._propagate_implicit_values()", "        other._propagate_implicit_values()"), ['C03.R3']),
        Mutant('priority-pushed-down-before-it-is-stored', lambda r: _early_propagation(r), ['C03.R4']),
        Mutant('gt-to-ge', lambda r: in_func(r, 'ConfigNode.ayns.has_priority_over', "return self.ayns.priority > other.ayns.priority", "return self.ayns.priority >= other.ayns.priority"), ['C03.R1']) if False else
        Mutant('equal-ignores-if_equal', lambda r: in_func(r, 'ConfigNode.ayns.has_priority_over', "return if_equal", "return False"), ['C03.R1']),
        Mutant('priority-compare-reversed', lambda r: in_func(r, 'ConfigNode.ayns.has_priority_over', "self.ayns.priority > other.ayns.priority", "self.ayns.priority < other.ayns.priority"), ['C03.R1']),
        Mutant('leaf-ties-keep-old', lambda r: in_func(r, 'ConfigNode.ayns.on_merge_impl', "if self.ayns.has_priority_over(other):", "if self.ayns.has_priority_over(other, if_equal=True):"), ['C03.R2']),
        Mutant('leaf-wrong-replace-helper', lambda r: in_func(r, 'ConfigNode.ayns.on_merge_impl', "other._replace_other(self, allow_promotions=False)", "other._replace_self(self, allow_promotions=False)"), ['C03.R2']),
        Mutant('container-tail-strict', lambda r: in_func(r, 'ComposedNode.ayns.on_merge_impl',
               "            if other.ayns.has_priority_over(self, if_equal=True):\n                ret = self._replace_self", "            if other.ayns.has_priority_over(self):\n                ret = self._replace_self"), ['C03.R2']),
        Mutant('container-tail-swapped', lambda r: in_func(r, 'ComposedNode.ayns.on_merge_impl',
               "ret = self._replace_self(other, allow_promotions=True)\n            else:\n                ret = self._replace_other(other, allow_promotions=True)",
               "ret = self._replace_other(other, allow_promotions=True)\n            else:\n                ret = self._replace_self(other, allow_promotions=True)"), ['C03.R2']),
        Mutant('function-str-ties-keep-old', lambda r: in_func(r, 'FunctionNode.ayns.on_merge_impl', "if other.ayns.has_priority_over(self, if_equal=True):\n                self._func = other", "if other.ayns.has_priority_over(self):\n                self._func = other"), ['C03.R2']),
        Mutant('replace-self-keeps-stale-priority', lambda r: in_func(r, 'ConfigNode._replace_self', "self._priority = other._priority", "self._priority = notnone_or(other._priority, self._priority)"), ['C03.R3']),
        Mutant('replace-other-takes-priority', lambda r: in_func(r, 'ConfigNode._replace_other', "        if other._safe is not None:", "        self._priority = other._priority\n        if other._safe is not None:"), ['C03.R3']),
        Mutant('metadata-spread-swapped', lambda r: in_func(r, 'ConfigNode._replace_self', "{ **self._metadata, **other._metadata }", "{ **other._metadata, **self._metadata }"), ['C03.R3']),
        Mutant('metadata-loses-loser', lambda r: in_func(r, 'ConfigNode._replace_other', "{ **other._metadata, **self._metadata }", "{ **self._metadata }"), ['C03.R3']),
        Mutant('attached-node-restamped-with-container-priority', lambda r: in_func(r, 'ComposedNode.ayns.set_child', "value = ConfigNode(value, **self._get_child_kwargs())", "value = ConfigNode(value, priority=self._priority, **self._get_child_kwargs())"), ['C03.R4c']),
        Mutant('F9-reverted-no-priority-propagation', lambda r: delete_stmt(r, 'ConfigNodeMeta.__call__', lambda t: t.startswith("if 'priority' in kwargs")), ['C03.R4']),
        Mutant('priority-propagation-not-recursive', lambda r: in_func(r, 'ComposedNode._propagate_priority', "            child._propagate_priority()\n", "            pass\n"), ['C03.R4']),
        Mutant('priority-popped-before-children', lambda r: in_func(r, 'ComposedNode.__init__', "kwargs.pop('idx', None)", "kwargs.pop('idx', None)\n        kwargs.pop('priority', None)"), ['C03.R4b']),
        Mutant('set_child-stamps-container-priority', lambda r: in_func(r, 'ComposedNode._get_child_kwargs', "        ret['implicit_allow_new'] =", "        if self._priority is not None:\n            ret['priority'] = self._priority\n        ret['implicit_allow_new'] ="), ['C03.R4c']),
        Mutant('force-tag-sets-weak', lambda r: in_func(r, 'yaml._force_constructor', "ConfigNode.FORCE", "ConfigNode.WEAK"), ['C03.R5']),
        Mutant('neutral-has_priority-local', lambda r: in_func(r, 'ConfigNode.ayns.has_priority_over',
               "            if self.ayns.priority == other.ayns.priority:\n                return if_equal\n            return self.ayns.priority > other.ayns.priority",
               "            mine = self.ayns.priority\n            theirs = other.ayns.priority\n            if mine == theirs:\n                return if_equal\n            return mine > theirs"), neutral=True),
    ]
