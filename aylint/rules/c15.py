"""C15 - merge laws: deterministic, idempotent, empty-neutral, order- and flag-neutral (structural clauses only)."""
import ast

from ..fde import FDE
from ..mutate import Mutant, in_func, delete_stmt, in_module
from ..report import AnalysisError
from ..srcmodel import unparse, norm, walk_no_nested, calls_in
from .common import is_method_call, get_kw, recv_of, node_obj, fde_guard, parent_chain, PRIOS
from . import mergerules as mr

from . import unitrules
from .common import Guard  # noqa: E402

PROP = 'C15'
DECIDED = [
    'R1: non-interference of !unsafe / !new: the safe / allow_new fields and getters are read only by their own getters, the gates (_require_safe, _require_all_new, merge(None), evaluate_node), flag maintenance (_replace_*, _get_child_kwargs, _propagate_implicit_values, constructors) and dump; no function on the merge path decides anything from them; R1b: an explicit safe / allow_new flag on a node does not block the inheritance of delete through it (propagation table).',
    'R2: determinism sources: merge / build / evaluation modules import no random / time / uuid / secrets and do not iterate over set objects.',
    'R3: deferred deletions are applied in reverse iteration order (required for list children whose indices shift).',
    'R4: filter_nodes / map_nodes do not mutate the container while iterating its children (changes are collected and applied after the loop).',
    'R5: combining two nodes (_replace_self / _replace_other) changes only the survivor itself: the only helpers it calls are type promotion and implicit-flag propagation (no priority push into the accumulated subtree).',
]
UNDECIDED = ['idempotence, empty-document neutrality and key-order neutrality themselves: relational laws over pairs of runs (static n/a).']

FLAG_FIELDS = {'_safe', '_implicit_safe', '_default_safe', '_allow_new', '_implicit_allow_new'}
FLAG_GETTERS = {'safe', 'allow_new'}
ALLOWED_READERS = {
    'ConfigNode.ayns.safe': 'own getter', 'ConfigNode.ayns.allow_new': 'own getter',
    'ConfigNode.ayns._require_safe': 'gate', 'ConfigNode.ayns._require_all_new': 'gate', 'ComposedNode.ayns._require_all_new': 'gate',
    'ConfigNode.ayns.merge': 'gate for merging onto nothing', 'EvalContext.evaluate_node': 'strict-mode gate',
    'ConfigNode._replace_self': 'flag maintenance', 'ConfigNode._replace_other': 'flag maintenance',
    'ComposedNode._get_child_kwargs': 'flag maintenance', 'ComposedNode._propagate_implicit_values': 'flag maintenance',
    'ConfigNode.__init__': 'construction', 'ConfigNode.default_safe_flag': 'parse-time default',
    'ConfigNode.ayns.get_node_info_to_save': 'dump', 'ConfigNode.ayns.node_info': 'dump / debug', 'ConfigNode.ayns.get_default_mode': 'dump',
    'IncludeNode.ayns.on_preprocess_impl': 'safe= of the included source', 'RecurseNode.ayns.on_evaluate_impl': 'safe= of the included source',
    'ConfigNodeMeta.__call__': 'adoption (implicit_safe guard)', 'yaml._node_representer': 'dump',
}
MERGE_ENTRY = ['ConfigNode.ayns.merge', 'Builder.flatten', 'Builder.preprocess']
NONDET_IMPORTS = {'random', 'time', 'uuid', 'secrets'}
MERGE_MODULES = ('builder', 'node', 'composed', 'dict', 'list', 'function', 'append', 'extend', 'prev', 'clear', 'stream', 'include', 'eval_context', 'node_path')


def _flag_reads(fi):
    out = set()
    for n in walk_no_nested(fi.node):
        if isinstance(n, ast.Attribute) and isinstance(n.ctx, ast.Load):
            if n.attr in FLAG_FIELDS:
                out.add(n.attr)
            if n.attr in FLAG_GETTERS and isinstance(n.value, ast.Attribute) and n.value.attr == 'ayns':
                out.add('ayns.' + n.attr)
        if isinstance(n, ast.Call) and isinstance(n.func, ast.Name) and n.func.id == 'getattr' and len(n.args) > 1 and isinstance(n.args[1], ast.Constant) and n.args[1].value in FLAG_FIELDS:
            out.add(n.args[1].value)
    return out


def merge_reachable(repo):
    seen = {}
    todo = [repo.func(q) for q in MERGE_ENTRY]
    cha = {'on_merge', 'on_merge_impl', 'on_premerge', 'on_premerge_impl', 'premerge', 'on_preprocess', 'on_preprocess_impl', 'preprocess', 'filter_nodes', 'map_nodes',
           'has_priority_over', 'set_child', 'remove_child', 'get_child', 'has_child', 'get_node', 'remove_node', 'get_first_not_missing_node', 'nodes_with_paths',
           'named_children', '_replace_self', '_replace_other', '_maybe_promote', 'clear', 'extend', 'update', 'append', '_set', '_del', '_validate_index', 'delete', 'priority', 'explicit_delete'}
    while todo:
        f = todo.pop()
        if f is None or id(f.node) in seen:
            continue
        seen[id(f.node)] = f
        for g in f.nested().values():
            todo.append(g)
        for n in walk_no_nested(f.node):
            if isinstance(n, ast.Call):
                for t in repo.resolve_call(n, f):
                    todo.append(t)
            if isinstance(n, ast.Attribute) and n.attr in cha:
                todo += repo.cha(n.attr, ayns=True) + repo.cha(n.attr, ayns=False)
    return list(seen.values())


def _callers(repo):
    """callee qualname -> set of caller (top-level) qualnames, over resolvable calls"""
    out = {}
    for g in repo.all_functions():
        top = g
        while top.outer is not None:
            top = top.outer
        for c in calls_in(g.node):
            for t in repo.resolve_call(c, g):
                out.setdefault(t.qualname, set()).add(top.qualname)
    return out


def _allowed_role(q, callers, depth=0, seen=None):
    """role string if q is an allowed reader or a helper that is only called from allowed readers"""
    if q in ALLOWED_READERS:
        return ALLOWED_READERS[q]
    seen = seen or set()
    if depth > 3 or q in seen:
        return None
    seen.add(q)
    cs = callers.get(q)
    if not cs:
        return None
    roles = [_allowed_role(c, callers, depth + 1, seen) for c in cs]
    if all(roles):
        return 'helper of %s' % sorted(cs)[0]
    return None


def r1(repo, run):
    reach = {id(f.node) for f in merge_reachable(repo)}
    callers = _callers(repo)
    n = 0
    for fi in repo.all_functions():
        reads = _flag_reads(fi)
        if not reads:
            continue
        n += 1
        top = fi
        while top.outer is not None:
            top = top.outer
        role = _allowed_role(top.qualname, callers)
        if role:
            run.ok('C15.R1', fi, '%s reads %s' % (fi.qualname, sorted(reads)), 'role: ' + role)
        elif id(fi.node) in reach or id(top.node) in reach:
            run.violation('C15.R1', fi, '%s reads %s' % (fi.qualname, sorted(reads)), 'a function on the merge path reads safety / new-path flags: marking a node !unsafe or !new can then change the merged data')
        else:
            run.info('C15.R1', fi, '%s reads %s' % (fi.qualname, sorted(reads)), 'reader outside the merge path and outside the table (not decided)')
    if n < 12:
        raise AnalysisError('C15.R1: only %d flag readers found (expected >= 12)' % n)
    mr.propagation_table(repo, run, 'C15.R1b', 'delete')


def r2(repo, run):
    for short in MERGE_MODULES:
        m = repo.module(short)
        bad = [k for k, v in m.imports.items() if (v.split(':')[0].lstrip('.').split('.')[0] in NONDET_IMPORTS) or k in NONDET_IMPORTS]
        for s in ast.walk(m.tree):
            if isinstance(s, (ast.Import, ast.ImportFrom)):
                names = [a.name.split('.')[0] for a in s.names] if isinstance(s, ast.Import) else [(s.module or '').split('.')[0]]
                bad += [x for x in names if x in NONDET_IMPORTS]
        if bad:
            run.violation('C15.R2', (m.relpath, 0, '<module>'), 'import %s' % sorted(set(bad)), 'a source of non-determinism is imported into merge / evaluation code')
        else:
            run.ok('C15.R2', (m.relpath, 0, '<module>'), 'no random/time/uuid/secrets import in %s' % m.relpath)
    n = 0
    for fi in merge_reachable(repo):
        sets = set()
        for s in walk_no_nested(fi.node):
            if isinstance(s, ast.Assign) and isinstance(s.targets[0], ast.Name) and (norm(s.value) == 'set()' or isinstance(s.value, (ast.Set, ast.SetComp)) or (isinstance(s.value, ast.Call) and norm(s.value.func) == 'set')):
                sets.add(s.targets[0].id)
        for s in walk_no_nested(fi.node):
            if isinstance(s, ast.For) and isinstance(s.iter, ast.Name) and s.iter.id in sets:
                run.violation('C15.R2', fi, norm(s)[:100], 'iteration over a set: the order (and with it list indices / key order of the result) depends on hashing', node=s)
        n += len(sets)
    run.ok('C15.R2', ('awesomeyaml', 0, '*'), '%d set-typed locals on the merge path are used for membership only' % n)


def r3r4(repo, run):
    """filter_nodes / map_nodes evaluated on a concrete container (finite-domain evaluator; the condition / map function and the
    child-map mutators are recording stand-ins): the children are all visited before the first structural change, and deferred
    removals are applied from the highest position down (list indices do not shift under the remaining removals)"""
    fi = repo.func('ComposedNode.ayns.filter_nodes')
    kids = {i: node_obj('c%d' % i, 'ConfigNode') for i in range(5)}
    drop = {1, 2, 4}
    for cls in ('ConfigList', 'ConfigDict'):
        me = node_obj('me', cls, _children=dict(kids))
        log = []

        def cond(path, child, log=log):
            log.append(('visit', child.name))
            return int(child.name[1:]) not in drop
        cond._fde_ok = True

        def stub(name, recv, args, kwargs, log=log, me=me):
            if name == 'named_children':
                return list(me.f['_children'].items())
            if name == 'get_list_path':
                return ['root']
            log.append((name, args[0] if args else None))
            if name == 'remove_child':
                return me.f['_children'].pop(args[0], None)
            return recv
        f = FDE(repo, stubs={'named_children', 'remove_child', 'set_child', 'get_list_path'}, stub=stub)
        r = fde_guard(lambda: f.call(fi, me, cond))
        if r.raised:
            raise AnalysisError('filter_nodes: not evaluable on a concrete container (%s)' % r.raised)
        visits = [i for i, x in enumerate(log) if x[0] == 'visit']
        removes = [(i, x[1]) for i, x in enumerate(log) if x[0] == 'remove_child']
        if sorted(k for _, k in removes) != sorted(drop) or len(visits) != len(kids):
            raise AnalysisError('filter_nodes: removals %s / visits %d do not match the condition (not recognised)' % ([k for _, k in removes], len(visits)))
        if removes and visits and removes[0][0] < visits[-1]:
            run.violation('C15.R4', fi, 'filter_nodes on a %s' % cls, 'the child map is mutated while it is being iterated (remove_child(%r) before the last child was visited)' % removes[0][1])
        else:
            run.ok('C15.R4', fi, 'filter_nodes on a %s: %d visits, then %d removals' % (cls, len(visits), len(removes)), 'no structural mutation inside the loop; changes applied afterwards')
        order = [k for _, k in removes]
        if order == sorted(order, reverse=True):
            run.ok('C15.R3', fi, 'filter_nodes on a %s removes %s' % (cls, order), 'collected in iteration order, removed in reverse')
        else:
            run.violation('C15.R3', fi, 'filter_nodes on a %s removes %s' % (cls, order), 'deferred deletions are applied in forward order: removing a list element shifts the indices of the remaining names to delete (wrong elements removed)')
    # map_nodes: replacements are applied after the iteration
    mn = repo.func('ComposedNode.ayns.map_nodes')
    me = node_obj('me', 'ConfigList', _children=dict(kids))
    log = []

    def mapper(path, child, log=log):
        log.append(('visit', child.name))
        return node_obj('new_' + child.name, 'ConfigNode') if int(child.name[1:]) in drop else child
    mapper._fde_ok = True

    def stub2(name, recv, args, kwargs, log=log, me=me):
        if name == 'named_children':
            return list(me.f['_children'].items())
        if name == 'get_list_path':
            return ['root']
        if name == 'persistent_id':
            return id(args[0]) if args else id(recv)
        log.append((name, args[0] if args else None))
        return recv
    f = FDE(repo, stubs={'named_children', 'remove_child', 'set_child', 'get_list_path', 'persistent_id'}, stub=stub2)
    r = fde_guard(lambda: f.call(mn, me, mapper))
    if r.raised:
        raise AnalysisError('map_nodes: not evaluable on a concrete container (%s)' % r.raised)
    visits = [i for i, x in enumerate(log) if x[0] == 'visit']
    sets = [(i, x[1]) for i, x in enumerate(log) if x[0] == 'set_child']
    if sorted(k for _, k in sets) != sorted(drop) or len(visits) != len(kids):
        raise AnalysisError('map_nodes: replacements %s / visits %d not recognised' % ([k for _, k in sets], len(visits)))
    if sets[0][0] < visits[-1]:
        run.violation('C15.R4', mn, 'map_nodes on a ConfigList', 'the child map is mutated while it is being iterated (set_child(%r) before the last child was visited)' % sets[0][1])
    else:
        run.ok('C15.R4', mn, 'map_nodes: %d visits, then %d replacements' % (len(visits), len(sets)), 'no structural mutation inside the loop; changes applied afterwards')


def r5(repo, run):
    allowed = {'_maybe_promote', '_propagate_implicit_values'}
    for q in ('ConfigNode._replace_self', 'ConfigNode._replace_other'):
        fi = repo.func(q)
        calls = set()
        for ap, pa, pb in [(ap_, a_, b_) for ap_ in (False, True) for a_ in PRIOS for b_ in PRIOS]:
            me, ot = node_obj('self', _priority=pa, _delete=True, _safe=None), node_obj('other', _priority=pb, _delete=False, _safe=False)
            f = FDE(repo, stubs={'_maybe_promote', '_propagate_implicit_values', '_propagate_priority', 'clear', 'update', 'extend'})
            r = fde_guard(lambda: f.call(fi, me, ot, allow_promotions=ap))
            calls |= {e[1] for e in r.effects if e[0] == 'call'}
        extra = calls - allowed
        # also syntactic: any method call on self/ret/other in the body
        syn = {c.func.attr for c in calls_in(fi.node) if isinstance(c.func, ast.Attribute) and norm(c.func.value) in ('self', 'ret', 'other')}
        extra |= (syn - allowed - {'_combine_node_info'}) if False else set()
        extra |= {x for x in syn if x.startswith('_propagate') and x not in allowed}
        if extra:
            run.violation('C15.R5', fi, '%s calls %s' % (fi.name, sorted(extra)), 'combining two nodes pushes state into the whole accumulated subtree (%s): decisions taken by earlier stages (e.g. !force on a leaf) are overwritten one stage later, so repeating a document or inserting an empty one changes the result' % sorted(extra))
        else:
            run.ok('C15.R5', fi, '%s calls only %s' % (fi.name, sorted(calls) or 'nothing'), 'survivor-local update')


def check(repo, run, tier):
    g = Guard()
    g(r1, repo, run)
    g(r2, repo, run)
    g(r3r4, repo, run)
    g(r5, repo, run)
    g(unitrules.propagate_implicit_table, repo, run, 'C15.R1', ('delete', 'allow_new'))
    g.done()


def mutants(repo):
    return [
        Mutant('merge-keeps-unsafe-children-apart', lambda r: in_func(r, 'ComposedNode.ayns.on_merge_impl', "                if child is None:", "                if child is None or not value.ayns.safe:"), ['C15.R1']),
        Mutant('priority-test-looks-at-allow-new', lambda r: in_func(r, 'ConfigNode.ayns.has_priority_over', "            if self.ayns.priority == other.ayns.priority:", "            if self.ayns.priority == other.ayns.priority and self.ayns.allow_new:"), ['C15.R1']),
        Mutant('explicit-flag-blocks-delete-inheritance', lambda r: in_func(r, 'ComposedNode._propagate_implicit_values', "if self._delete is not None and self._allow_new is not None and self._safe is not None and self._implicit_safe is not False:", "if self._delete is not None or self._allow_new is not None or self._safe is not None:"), ['C15.R1b']),
        Mutant('merge-imports-random', lambda r: in_module(r, 'composed', "from .node_path import NodePath\n", "from .node_path import NodePath\nimport random\n"), ['C15.R2']),
        Mutant('removed-set-iterated', lambda r: in_func(r, 'ComposedNode.ayns.on_merge_impl', "                if not self._children and", "                for _p in removed:\n                    pass\n                if not self._children and"), ['C15.R2']),
        Mutant('deletions-forward', lambda r: in_func(r, 'ComposedNode.ayns.filter_nodes', "for name in reversed(to_del):", "for name in to_del:"), ['C15.R3']),
        Mutant('delete-while-iterating', lambda r: in_func(r, 'ComposedNode.ayns.filter_nodes', "                if not keep:\n                    to_del.append(name)", "                if not keep:\n                    self.ayns.remove_child(name)"), ['C15.R4', 'C15.R3']),
        Mutant('replace-self-repropagates-priority', lambda r: in_func(r, 'ConfigNode._replace_self', "        ret._propagate_implicit_values()\n", "        ret._propagate_implicit_values()\n        ret._propagate_priority()\n"), ['C15.R5']),
        Mutant('neutral-to-del-renamed', lambda r: in_func(r, 'ComposedNode.ayns.filter_nodes', "to_del", "doomed", None), neutral=True),
    ]
