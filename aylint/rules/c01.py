"""C01 - tags are transparent: one source evaluates to its plain-YAML content."""
import ast
import collections.abc as cabc
import datetime
import importlib.util
import os

from .. import cfg as cfgmod
from ..fde import FDE, Obj
from ..mutate import Mutant, in_func, delete_stmt, in_module
from ..report import AnalysisError
from ..srcmodel import unparse, norm, walk_no_nested, calls_in, fold_const
from .common import cfg_of, facts_at, is_method_call, get_kw, fde_guard, find_stmt_node
from . import containers as ct
from . import unitrules
from . import tr
from ..tracer import Tracer, callback_params
from .tagtable import check_flag_tags

from .common import Guard  # noqa: E402

PROP = 'C01'
DECIDED = [
    'R1: the deferred fill of a wrapped container is registered only when PyYAML has not filled it yet (guard implies not deep and not self.deep_construct; the PyYAML fact is re-derived from the installed yaml/constructor.py on every run); R1b: both lazily filled node kinds register the matching filler; R1c: tagged nodes are constructed with deep=True.',
    'R2: merge-control tags (!del !merge !weak !force !new !notnew !unsafe !metadata:) are pure flag setters on the deduced plain node type with the documented flag; R2b: tagged scalars are re-resolved with the implicit pair chosen by the scalar style and constructed unconverted.',
    'R3: type deduction ladder evaluated for every Python type PyYAML produces: dict->ConfigDict, list->ConfigList, tuple->ConfigTuple, everything else (incl. str/bytes) ->ConfigScalar.',
    'R4: scalar native-type table: every non-identity wrapper (bool->configbool, NoneType->ConfigNone) is special-cased in _get_value and _get_native_value and defines get(); other scalars convert with _dyn_base(self).',
    'R5: plain containers evaluate every child exactly once, in child-map order, through the context (single comprehension over named_children without filter/sort/slice).',
    'R7: the {{...}} -> :hex rewriting shifts both bounds of every block by the accumulated offset, splices data[:beg] + repl + data[end:] and accumulates len(repl) - (end - beg); encoder / decoder are an inverse pair.',
    'R6: no key class bypasses the child map: ConfigDict item set/delete keep both stores paired (C17.R1).',
    'R8: ConfigNone (payload of null scalars) evaluated: false, equal to None, printed as None, get() is None.',
    'R9: the walkers (filter_nodes, map_nodes, nodes_with_paths) and EvalContext.evaluate_node normalise their path prefix without type-checking its components: float / bool keys are legal.',
    'R10: NamespaceableMeta.__init__ on traces: namespaces are installed on the class and members moved into a namespace are removed from the class itself (own, non-dunder names) - so that only real class attributes are refused as mapping keys. (This is also the machinery the source model of the analysis mirrors.)',
    'R1c also: yaml._make_node evaluated on 24 rows (node kind x dict_is_data x data_arg_name x parse_scalars). R2 also: every tag of the property builds the documented node class with the documented data handling (tag specification table), _decode_metadata separates merge-control fields from user metadata, and the registration helpers register with PyYAML.',
]
UNDECIDED = ['tokenisation of the {{...}} block end (_get_metadata_end);', 'equality of scalar values; non-core YAML types; YAML merge keys (<<) under tagged mappings.']
TRUSTED = ['shape of yaml/constructor.py BaseConstructor.construct_object of the installed PyYAML (re-verified structurally on each run)']


def pyyaml_fact():
    spec = importlib.util.find_spec('yaml')
    if spec is None or not spec.origin:
        raise AnalysisError('PyYAML not installed in the checking interpreter')
    path = os.path.join(os.path.dirname(spec.origin), 'constructor.py')
    tree = ast.parse(open(path).read())
    fn = None
    for c in tree.body:
        if isinstance(c, ast.ClassDef) and c.name == 'BaseConstructor':
            for f in c.body:
                if isinstance(f, ast.FunctionDef) and f.name == 'construct_object':
                    fn = f
    if fn is None:
        raise AnalysisError('PyYAML BaseConstructor.construct_object not found')
    sets_deep = False
    eager_under_deep_construct = False
    for s in ast.walk(fn):
        if isinstance(s, ast.If) and norm(s.test) == 'deep' and any(norm(b) == 'self.deep_construct = True' for b in s.body):
            sets_deep = True
        if isinstance(s, ast.If) and norm(s.test) == 'self.deep_construct':
            exhaust = any(isinstance(b, ast.For) and norm(b.iter) == 'generator' for b in s.body)
            defer = any('self.state_generators.append(generator)' in norm(b) for b in s.orelse)
            if exhaust and defer:
                eager_under_deep_construct = True
    if not (sets_deep and eager_under_deep_construct):
        raise AnalysisError('PyYAML construct_object shape changed (deep -> deep_construct=True: %s; eager fill under deep_construct: %s)' % (sets_deep, eager_under_deep_construct))
    return path


LNI = {'_convert', '_make_generator', 'construct_object', 'construct_mapping', 'construct_sequence', 'construct_scalar', 'parse_scalar', 'resolve'}


def _filler(repo, val, W):
    """classify the function handed to _make_generator: (description, idempotent, kind of operation) - W is the wrapper text"""
    if val.closure is None:
        t = val.text
        if t == W + '.update':
            return ('wrapper.update', True, 'update')
        if t == W + '.extend':
            return ('wrapper.extend (complete list)', False, 'extend')
        return (t[:60], False, None)
    t, cps = Tracer(repo, no_inline=LNI, follow_exceptions=False).trace_closure(val)
    ps = callback_params(t)
    if len(cps) != 1 or len(ps) != 1:
        return ('function with %d paths' % len(cps), False, None)
    calls = [e for e in cps[0].events if e.kind == 'call' and e.attr in ('extend', 'update') and e.recv is not None and e.recv.text == W]
    if len(calls) != 1 or len(calls[0].args) != 1:
        return ('function without a single wrapper.extend / wrapper.update', False, None)
    c = calls[0]
    arg = c.args[0].text
    if c.attr == 'update' and arg == ps[0]:
        return ('wrapper.update', True, 'update')
    if c.attr == 'extend' and arg == '%s[len(%s):]' % (ps[0], W):
        return ('wrapper.extend (tail form: only the elements the wrapper does not hold yet)', True, 'extend')
    if c.attr == 'extend' and arg == ps[0]:
        return ('wrapper.extend (complete list)', False, 'extend')
    return ('wrapper.%s(%s)' % (c.attr, arg[:40]), False, None)


def r1(repo, run):
    path = pyyaml_fact()
    fi = repo.func('AwesomeyamlLoader.construct_object')
    paths = tr.paths_of(repo, fi, no_inline=LNI, follow_exceptions=False)
    regs = []
    for p in paths:
        for e in p.events:
            if e.kind == 'call' and e.callee == 'self.state_generators.append':
                regs.append((p, e))
    if not regs:
        run.violation('C01.R1b', fi, 'deferred fill', 'no deferred fill is registered at all: containers wrapped while PyYAML is still constructing them lazily stay empty')
        return
    kinds = {}
    seen = set()
    for p, e in regs:
        gens = [g for g in p.events if g.kind == 'call' and g.attr == '_make_generator' and g.result is not None and e.args and g.result.text == e.args[0].text]
        if not gens or len(gens[0].args) != 2:
            raise AnalysisError('construct_object: registered generator is not self._make_generator(value, filler)')
        g = gens[0]
        W = p.ret.text if p.ret is not None else None
        conv = [c for c in p.events if c.kind == 'call' and c.attr == '_convert' and c.result is not None and c.result.text == W]
        if p.status != 'return' or not conv or not conv[0].args or conv[0].args[0].text != g.args[0].text:
            raise AnalysisError('construct_object: the wrapper returned is not self._convert(<the value being filled>, node)')
        desc, idempotent, op = _filler(repo, g.args[1], W)
        kind = None
        for t, pol in e.facts:
            if pol and t.startswith('isinstance(node, yaml.'):
                kind = t[len('isinstance(node, yaml.'):-1]
        if kind is None:
            raise AnalysisError('construct_object: kind of the yaml node at a registration not decided')
        kinds[kind] = (desc, e, op)
        guard_ok = ('deep', False) in e.facts and ('self.deep_construct', False) in e.facts
        if (id(e.node), guard_ok) in seen:
            continue
        seen.add((id(e.node), guard_ok))
        if idempotent:
            run.ok('C01.R1', tr.where(fi, e), 'deferred fill of %s: %s' % (kind, desc), 'idempotent filler: a container PyYAML already filled (deep construction, alias) cannot receive its entries twice')
        elif guard_ok and kind == 'SequenceNode':
            run.violation('C01.R1d', tr.where(fi, e), 'deferred fill of %s: %s' % (kind, desc), 'a wrapped sequence is later extended with the *complete* PyYAML list: when the same yaml node is reached again through an alias after it was filled, the wrapper (built from the full list) receives every element twice (a: &x [1, 2] / b: {c: *x} -> c: [1, 2, 1, 2]); the guard only excludes deep construction')
        elif guard_ok:
            run.ok('C01.R1', tr.where(fi, e), 'deferred fill of %s: %s' % (kind, desc), 'only when PyYAML defers the fill (not deep and not self.deep_construct; fact from %s)' % os.path.basename(path))
        else:
            missing = [t for t in ('deep', 'self.deep_construct') if (t, False) not in e.facts]
            run.violation('C01.R1', tr.where(fi, e), 'deferred fill of %s: %s' % (kind, desc), 'a non-idempotent deferred fill is registered although PyYAML may already have filled the container (guard does not imply `not %s`): elements are added twice' % '` / `not '.join(missing))
    want = {'SequenceNode': 'extend', 'MappingNode': 'update'}
    for k, w in want.items():
        got = kinds.get(k)
        if got is None:
            run.violation('C01.R1b', fi, 'deferred fill for yaml.%s' % k, 'lazily constructed %s values are wrapped without registering their fill' % k)
        elif got[2] != w:
            run.violation('C01.R1b', tr.where(fi, got[1]), 'deferred fill for yaml.%s' % k, '%s is filled with %s (expected wrapper.%s)' % (k, got[0], w))
        else:
            run.ok('C01.R1b', tr.where(fi, got[1]), 'yaml.%s -> %s' % (k, got[0]))
    mg = repo.func('AwesomeyamlLoader._make_generator')
    ps = mg.params()
    okg = True
    gp = tr.paths_of(repo, mg, follow_exceptions=False)
    for p in gp:
        ys = [i for i, e in enumerate(p.events) if e.kind == 'yield']
        cs = [i for i, e in enumerate(p.events) if e.kind == 'call' and len(ps) >= 2 and e.callee == ps[-1] and len(e.args) == 1 and e.args[0].text == ps[-2]]
        if len(ys) != 1 or len(cs) != 1 or cs[0] < ys[0]:
            okg = False
    if not okg or not gp:
        run.violation('C01.R1b', mg, '_make_generator', 'the deferred filler must yield first and then copy the (by then complete) PyYAML container once')
    else:
        run.ok('C01.R1b', mg, '_make_generator: yield; update_fn(value)')
    # super() is asked with the same deep flag
    for p in paths:
        sup = [e for e in p.events if e.kind == 'call' and e.callee == 'super().construct_object']
        if len(sup) != 1 or sup[0].kw.get('deep') is None or sup[0].kw['deep'].text != 'deep':
            raise AnalysisError('construct_object: super().construct_object(node, deep=deep) not recognised')
    mk = repo.func('yaml._make_node')
    mp = tr.paths_of(repo, mk, no_inline=LNI, follow_exceptions=False)
    done = {}
    for p in mp:
        for e in p.events:
            if e.kind == 'call' and e.attr in ('construct_mapping', 'construct_sequence') and e.recv is not None and e.recv.text == 'loader':
                d = e.kw.get('deep') or (e.args[1] if len(e.args) > 1 else None)
                done[id(e.node)] = (e, d is not None and d.const is True)
    if len(done) != 2:
        raise AnalysisError('_make_node: construct_mapping / construct_sequence calls not recognised')
    for e, okd in done.values():
        if okd:
            run.ok('C01.R1c', tr.where(mk, e), e.callee + '(node, deep=True)', 'tagged containers are complete when the node constructor copies them')
        else:
            run.violation('C01.R1c', tr.where(mk, e), e.callee, 'a tagged container is constructed lazily; the node constructor copies its children immediately and misses them')


def r2b(repo, run):
    mk = repo.func('yaml._make_node')
    mp = tr.paths_of(repo, mk, no_inline=LNI, follow_exceptions=False)
    n = 0
    bad = None
    for p in mp:
        scalar = tr.fact(p, 'isinstance(node, yaml.ScalarNode)', True) or (tr.fact(p, 'isinstance(node, yaml.MappingNode)', False) and tr.fact(p, 'isinstance(node, yaml.SequenceNode)', False) and not tr.fact(p, 'isinstance(node, yaml.ScalarNode)', False))
        if not scalar:
            continue
        ps_ = [e for e in p.events if e.kind == 'call' and e.callee == 'parse_scalar']
        cs_ = [e for e in p.events if e.kind == 'call' and e.attr == 'construct_scalar']
        raw = tr.fact(p, 'parse_scalars', False)
        n += 1
        if raw:
            if not cs_ or ps_:
                bad = 'with parse_scalars=False the scalar is not taken verbatim (loader.construct_scalar)'
        elif len(ps_) != 1 or cs_ or [a.text for a in ps_[0].args] != ['loader', 'node']:
            bad = 'tagged scalars are not re-parsed with parse_scalar on the parse_scalars branch (a tagged `5` would stay the string "5")'
    if not n:
        raise AnalysisError('_make_node: scalar arm not recognised')
    if bad:
        run.violation('C01.R2b', mk, '_make_node scalar arm', bad)
    else:
        run.ok('C01.R2b', mk, 'scalar arm: parse_scalar(loader, node) unless parse_scalars is False (%d paths)' % n)
    ps = repo.func('yaml.parse_scalar')
    pp = tr.paths_of(repo, ps, no_inline=LNI, follow_exceptions=False)
    res = {}
    other = set()
    shortcuts = []
    for style in (None, '"', "'", '|', '>'):
        feas = [p for p in pp if tr.feasible(p, {'node.style': style})[0]]
        if not feas:
            raise AnalysisError('parse_scalar: no feasible path for style %r' % (style,))
        for p in feas:
            rs = [e for e in p.events if e.kind == 'call' and e.attr == 'resolve' and e.recv is not None and e.recv.text == 'loader']
            co = [e for e in p.events if e.kind == 'call' and e.attr == 'construct_object' and e.recv is not None and e.recv.text == 'loader']
            cs = [e for e in p.events if e.kind == 'call' and e.attr == 'construct_scalar' and e.recv is not None and e.recv.text == 'loader']
            if not rs and len(cs) == 1 and p.status == 'return' and p.ret is not None and p.ret.text == cs[0].result.text and cs[0].args and cs[0].args[0].text == 'node':
                # the scalar text is taken verbatim: what PyYAML does for an untagged scalar only when it is not plain
                # (quoted and block scalars resolve to str); for a plain scalar the tag would turn numbers / booleans into strings
                res.setdefault(style, set()).add((True, False) if style is not None else 'verbatim text for a plain scalar')
                if style is not None:
                    res[style].discard((True, False))
                    res[style].add((False, True))
                continue
            if not rs and not co and not cs and p.status == 'return':
                shortcuts.append((style, p))     # a result computed without PyYAML: decided by evaluation below
                continue
            if len(rs) != 1 or len(rs[0].args) != 3:
                raise AnalysisError('parse_scalar: loader.resolve(kind, value, implicit) not recognised')
            r = rs[0]
            impl = r.args[2]
            pair = None
            if impl.elems is not None and len(impl.elems) == 2:
                try:
                    pair = tuple(bool(tr._ev_const(x.ast, {'node.style': style})) for x in impl.elems)
                except tr._Unknown:
                    pair = None
            if pair is None:
                shortcuts.append((style, p))      # the pair is computed in a way the trace cannot fold (an enum, a table): decided by evaluation below
                res.setdefault(style, set()).add((True, False) if style is None else (False, True))
            else:
                res.setdefault(style, set()).add(pair)
            if p.status == 'return' and co and p.ret is not None:
                R = co[0].result.text
                if p.ret.text == R:
                    pass
                elif p.ret.text in ('ConfigNode(None)', 'None') and (tr.fact(p, R + ' is None', True) or tr.fact(p, R + ' is not None', False)):
                    pass        # (a literal None returned where the constructed value is known to be None is that value)
                else:
                    other.add('the value a tagged scalar resolves to is post-processed (%s is returned instead of what the untagged scalar constructs): the tag changes the value [%s]' % (p.ret.text[:50], tr.describe(p, 4)))
            if r.args[0].text != 'yaml.ScalarNode' or r.args[1].text not in ('copy.deepcopy(node).value', 'node.value', 'copy.copy(node).value'):
                other.add('the tag-erased scalar is not resolved as (ScalarNode, value, implicit)')
            if len(co) != 1 or co[0].kw.get('convert') is None or co[0].kw['convert'].const is not False:
                other.add('the re-resolved scalar is wrapped into a node (convert must be False: the node constructor receives the plain Python value)')
            elif not co[0].args or not any(e.kind == 'store' and e.target == co[0].args[0].text + '.tag' and e.value is not None and e.value.text == r.result.text for e in p.events):
                other.add('the resolved tag is not assigned to the scalar that is then constructed')
            elif co[0].args[0].text == 'node':
                other.add('the tag of the original yaml node is overwritten (no copy)')
    badst = {k: v for k, v in res.items() if v != {(True, False) if k is None else (False, True)}}
    if badst:
        k = sorted(badst, key=str)[0]
        run.violation('C01.R2b', ps, 'implicit pair for scalar style %r' % k, 'a tagged scalar written in style %r is resolved with implicit=%r; an untagged scalar of that style is resolved with %r, so the tag changes the value type' % (k, sorted(badst[k]), (True, False) if k is None else (False, True)))
    else:
        run.ok('C01.R2b', ps, 'implicit pair by style: plain -> (True, False), quoted/block -> (False, True) (5 styles)')
    for o in sorted(other):
        run.violation('C01.R2b', ps, 'parse_scalar', o)
    if not other:
        run.ok('C01.R2b', ps, 'loader.construct_object(<tag-erased copy>, deep=True, convert=False)')
    _parse_scalar_texts(repo, run, bool(shortcuts))


SCALAR_TEXTS = ['0', '1', '128', '-5', '+7', '0755', '-017', '09', '08', '00', '0x1F', '0b101', '1_000', '1:30', '190:20:30', '1.5', '-0.0', '1e3', '1.0e+3', '.5', '5.', '.inf', '-.INF', '.nan',
                'true', 'True', 'yes', 'No', 'on', 'off', 'null', '~', '', 'Null', 'abc', 'a b', '1a', '-', '+', '2001-01-01', '2001-12-14t21:59:43.10-05:00', '=', '<<', '0o17', '1__0', '0_7', '12345678901234567890']


def _parse_scalar_texts(repo, run, required):
    """parse_scalar evaluated on scalar texts x styles with the PyYAML loader as a recording stand-in: whenever the function answers
    without handing the tag-erased scalar to PyYAML, its answer must be what PyYAML itself constructs for the untagged scalar (value and
    type; PyYAML's own resolver and constructor, as installed, are the reference). Texts that an implicit resolver registered by the
    package claims are not judged."""
    import re as _re
    import yaml as _yaml
    ps = repo.func('yaml.parse_scalar')
    own = []
    for mod in repo.modules.values():
        for c in calls_in(mod.tree):
            if unparse(c.func) in ('add_implicit_resolver', 'yaml.add_implicit_resolver') and len(c.args) >= 2 and mod.relpath.endswith('yaml.py') and not isinstance(c.args[1], ast.Name) is False:
                g = mod.globals.get(c.args[1].id) if isinstance(c.args[1], ast.Name) else None
                if isinstance(g, ast.Call) and unparse(g.func) == 're.compile' and g.args and isinstance(g.args[0], ast.Constant):
                    own.append(_re.compile(g.args[0].value))
                elif c.args[1].id not in ('regex',):
                    raise AnalysisError('implicit resolver %s: regular expression not found' % unparse(c)[:60])
    bad = []
    rows = direct = 0
    for style in (None, '"', "'", '|', '>'):
        for text in SCALAR_TEXTS:
            rows += 1
            node = Obj('ynode', 'yaml.ScalarNode', value=text, style=style, tag='!tag', start_mark=None, end_mark=None)
            asked = []

            def stub(n, recv, a, k):
                asked.append(n)
                if n == 'resolve':
                    impl = k.get('implicit', a[2] if len(a) > 2 else None)
                    want_impl = (True, False) if style is None else (False, True)
                    if not (isinstance(impl, (tuple, list)) and len(impl) == 2 and all(isinstance(x, bool) for x in impl)):
                        raise AnalysisError('parse_scalar: the implicit pair handed to loader.resolve is not evaluable (%r)' % (impl,))
                    if tuple(impl) != want_impl and not any(b_.startswith('a tagged scalar written in style %r' % (style,)) for b_ in bad):
                        bad.append('a tagged scalar written in style %r is resolved with implicit=%r; an untagged scalar of that style is resolved with %r, so the tag changes the value type (`!force |\\n  8080` becomes an int)' % (style, tuple(impl), want_impl))
                    return 'RESOLVED'
                return ('PYYAML', n)
            f = FDE(repo, stubs={'resolve', 'construct_object', 'construct_scalar'}, stub=stub, max_depth=6)
            dc = lambda x, *a: Obj(x.name + '_copy', x.cls, **dict(x.f)) if isinstance(x, Obj) else x
            f.extcalls = {'copy.deepcopy': dc, 'copy.copy': dc, 'deepcopy': dc}
            f.externals = {'yaml.ScalarNode': _yaml.ScalarNode}
            try:
                r = f.call(ps, Obj('loader', 'AwesomeyamlLoader'), node)
            except Exception as e:
                if required or os.environ.get('AYLINT_DEBUG'):
                    raise AnalysisError('parse_scalar answers some scalars without PyYAML and is not evaluable on %r (style %r): %s' % (text, style, e))
                return
            if r.raised:
                bad.append('tagged scalar %r (style %r): parse_scalar raises %s' % (text, style, r.raised))
                continue
            if isinstance(r.ret, tuple) and r.ret and r.ret[0] == "PYYAML":
                continue
            if asked:
                continue        # PyYAML was involved: judged by the path rule above
            if any(x.match(text) for x in own) and style is None:
                continue
            direct += 1
            ref = _yaml.SafeLoader('')
            try:
                tag = ref.resolve(_yaml.ScalarNode, text, (True, False) if style is None else (False, True))
                want = ref.construct_object(_yaml.ScalarNode(tag, text, style=style), deep=True)
            finally:
                ref.dispose()
            got = r.ret
            if isinstance(got, (Obj,)) or (isinstance(got, tuple) and got and isinstance(got[0], str) and got[0] in ('class', 'ext')):
                raise AnalysisError('parse_scalar: direct answer %r for %r not comparable' % (got, text))
            same = type(got) is type(want) and (got == want or (got != got and want != want)) and repr(got) == repr(want)
            if not same:
                bad.append('`!tag %s` (style %r) is answered directly with %r (%s); the untagged scalar is constructed by PyYAML as %r (%s)' % (text, style, got, type(got).__name__, want, type(want).__name__))
    run.table('C01.R2b', rows, 'parse_scalar on scalar texts x styles (%d answered without PyYAML)' % direct)
    if bad:
        run.violation('C01.R2b', ps, 'parse_scalar direct answers', '; '.join(bad[:3]) + (' (+%d more)' % (len(bad) - 3) if len(bad) > 3 else ''))
    else:
        run.ok('C01.R2b', ps, 'every scalar text is either handed to PyYAML or answered exactly as PyYAML would (%d rows, %d direct)' % (rows, direct))


# ---- R3 type deduction --------------------------------------------------------------------------
PYYAML_TYPES = [dict, list, tuple, str, bytes, int, float, bool, type(None), datetime.date, datetime.datetime, set]
ABC = {'cabc.Sequence': cabc.Sequence, 'cabc.MutableSequence': cabc.MutableSequence, 'cabc.MutableMapping': cabc.MutableMapping,
       'cabc.Mapping': cabc.Mapping, 'cabc.Set': cabc.Set, 'cabc.MutableSet': cabc.MutableSet,
       'str': str, 'bytes': bytes, 'dict': dict, 'list': list, 'tuple': tuple, 'int': int, 'float': float, 'bool': bool, 'set': set}


def _isa(test, pytype):
    """evaluate a boolean combination of isinstance(value, T) for an instance of the builtin `pytype`
    (facts about builtin types and collections.abc come from the stdlib, not from the repo)"""
    if isinstance(test, ast.BoolOp):
        vals = [_isa(v, pytype) for v in test.values]
        return all(vals) if isinstance(test.op, ast.And) else any(vals)
    if isinstance(test, ast.UnaryOp) and isinstance(test.op, ast.Not):
        return not _isa(test.operand, pytype)
    if isinstance(test, ast.Call) and norm(test.func) == 'isinstance' and norm(test.args[0]) == 'value':
        t = test.args[1]
        names = [norm(e) for e in t.elts] if isinstance(t, ast.Tuple) else [norm(t)]
        for nm in names:
            if nm not in ABC:
                raise AnalysisError('type deduction: unknown type %s in ladder' % nm)
        return any(issubclass(pytype, ABC[nm]) for nm in names)
    raise AnalysisError('type deduction: test %s outside the evaluable fragment' % norm(test))


def _ladder(stmts, pytype):
    for s in stmts:
        if isinstance(s, ast.If):
            r = _ladder(s.body if _isa(s.test, pytype) else s.orelse, pytype)
            if r is not None:
                return r
        elif isinstance(s, ast.Assign) and norm(s.targets[0]) == 't':
            return norm(s.value)
    return None


def r3(repo, run):
    """type deduction evaluated through the metaclass call itself (finite-domain evaluator, one typed value per
    Python type PyYAML can produce): which node class is instantiated for cls=ConfigNode"""
    from ..fde import TypedOpaque, FDE
    mc = repo.func('ConfigNodeMeta.__call__')
    expect = {dict: 'ConfigDict', list: 'ConfigList', tuple: 'ConfigTuple'}
    bad = []
    for t in PYYAML_TYPES:
        f = FDE(repo)
        f.externals = dict(ABC)
        r = fde_guard(lambda: f.call(mc, ('class', 'ConfigNode'), TypedOpaque(t)))
        inst = [e for e in r.effects if e[0] == 'instantiate']
        got = inst[0][1] if len(inst) == 1 else ('%d instantiations' % len(inst))
        forced = len(inst) == 1 and dict(inst[0][3]).get('_force_type') is True
        want = expect.get(t, 'ConfigScalar')
        if got != want:
            bad.append((t.__name__, got, want))
        elif not forced:
            bad.append((t.__name__, got + ' without _force_type=True', want))
    run.table('C01.R3', len(PYYAML_TYPES), 'deduced node class per Python type PyYAML produces')
    if bad:
        run.violation('C01.R3', mc, 'type deduction', 'a %s value is wrapped as %s (expected %s)' % bad[0], witness=bad)
    else:
        run.ok('C01.R3', mc, 'type deduction table (%d types)' % len(PYYAML_TYPES), 'dict/list/tuple -> containers, everything else (str, bytes, numbers, None, dates, sets) -> ConfigScalar')


def r4(repo, run):
    from ..fde import FDE, Obj, Opaque
    meta = repo.cls('ConfigScalarMeta')
    tbl = meta.attrs.get('_allowed_scalar_types')
    if not isinstance(tbl, ast.Dict):
        raise AnalysisError('_allowed_scalar_types is not a dict display')
    pairs = dict((norm(k), norm(v)) for k, v in zip(tbl.keys, tbl.values))
    want = {'bool': 'configbool', 'type(None)': 'ConfigNone', 'int': 'int', 'float': 'float', 'str': 'str'}
    for k, w in want.items():
        if pairs.get(k) != w:
            run.violation('C01.R4', ('awesomeyaml/nodes/scalar.py', tbl.lineno, 'ConfigScalarMeta'), '_allowed_scalar_types[%s]' % k, '%s scalars are stored as %s (expected %s)' % (k, pairs.get(k), w))
    # evaluate the value getters for every storage type
    bad = []
    rows = 0
    for base in ('int', 'float', 'str', 'configbool', 'ConfigNone'):
        for q in ('ConfigScalar._get_value', 'ConfigScalar._get_native_value', 'ConfigScalar.ayns.on_evaluate_impl'):
            fi = repo.func(q)
            me = Obj('self', 'ConfigScalar', _dyn_base=('class', base))
            f = FDE(repo)
            args = [me] if not q.endswith('on_evaluate_impl') else [me, 'path', Opaque('ctx')]
            r = fde_guard(lambda: f.call(fi, *args))
            rows += 1
            got = r.ret
            desc = getattr(got, 'name', repr(got)) if got is not me else 'self'
            if base == 'configbool':
                ok = desc == 'bool(self)'
                exp = 'bool(self)'
            elif base == 'ConfigNone':
                ok = got is None
                exp = 'None'
            elif q.endswith('_get_value'):
                ok = got is me
                exp = 'self'
            else:
                ok = desc == '%s(self)' % base
                exp = '%s(self)' % base
            if not ok:
                bad.append((q, base, desc, exp))
    run.table('C01.R4', rows, 'value getters over the five scalar storage types')
    if bad:
        q, base, desc, exp = bad[0]
        run.violation('C01.R4', repo.func(q), '%s for %s scalars' % (q.split('.')[-1], base), 'yields %s (expected %s): the evaluated config would hold a wrapper / a value of another type or a shared object instead of the native value' % (desc, exp), witness=bad)
    else:
        run.ok('C01.R4', repo.func('ConfigScalar._get_native_value'), 'scalar value table (%d rows)' % rows, 'bool -> bool(self), null -> None, int/float/str -> exact base type of the node; evaluation returns the native value')
    gb = repo.resolve('configbool', 'get')
    gn = repo.resolve('ConfigNone', 'get')
    if gb is None or gn is None:
        run.violation('C01.R4', ('awesomeyaml/nodes/scalar.py', 0, 'configbool'), 'wrapper get()', 'configbool / ConfigNone have no get()')
    # R4b: the value getters are pure (a process-wide memo of native values conflates equal values of different types)
    from .. import shared
    fns = [repo.func(q) for q in ('ConfigScalar._get_value', 'ConfigScalar._get_native_value', 'ConfigScalar.ayns.on_evaluate_impl')]
    extra = []
    for f_ in fns:
        for c in calls_in(f_.node):
            for t in repo.resolve_call(c, f_):
                if t not in fns and t not in extra and t.module is f_.module:
                    extra.append(t)
    ws = shared.shared_writes(repo, fns + extra)
    if ws:
        w = ws[0]
        run.violation('C01.R4b', w.fi, w.text(), 'scalar evaluation writes to process-shared state (%s %s): evaluated values are no longer a function of the node alone (e.g. an interning table makes 1.0 evaluate to an earlier int 1)' % w.root, node=w.node)
    else:
        run.ok('C01.R4b', fns[1], 'scalar value getters write no process-shared state')


def plain_container_eval(repo, run, rule):
    from . import tr
    table_err = None
    try:
        unitrules.plain_container_table(repo, run, rule)
    except AnalysisError as e_:
        table_err = e_       # (the trace rule below may still read the shape; if it cannot either, this is the verdict)
    for q, wrap, with_key in (('ConfigDict.ayns.on_evaluate_impl', 'Bunch', True), ('ConfigList.ayns.on_evaluate_impl', 'list', False)):
        fi = repo.func(q)
        pth, ctx = fi.params()[1], fi.params()[2]
        paths = [p for p in tr.paths_of(repo, fi) if p.status == 'return']
        if not paths:
            raise AnalysisError('%s: no returning path' % q)
        it = 'each(self.ayns.named_children())'
        want = {'%s.evaluate_node(%s[1], %s + [%s[0]])' % (ctx, it, pth, it)}
        if with_key:
            want.add('%s.evaluate_node(%s[0])' % (ctx, it))
        probs = []
        unread = False
        for p in paths:
            evs = [e for e in p.events if tr.is_call(e, attr=('evaluate_node', 'evaluate', 'on_evaluate', 'on_evaluate_impl'))]
            got = {norm(_call_text(e)) for e in evs if e.in_loop}
            outside = [e for e in evs if not e.in_loop]
            iters = {e.callee for e in p.events if e.kind == 'call' and e.attr in ('named_children', 'children', 'items', 'values', 'keys', 'sorted', 'reversed', 'enumerate') or (e.kind == 'call' and e.callee in ('sorted', 'reversed', 'enumerate', 'zip'))}
            filt = [t for t, pol in p.facts if t.startswith('comprehension-filter') or 'each(' in t]
            if not got and not outside:
                # nothing recognisable on the trace (the evaluation happens in a helper the result constructor consumes):
                # which children are evaluated, and how, is decided by evaluation (unitrules.plain_container_table)
                unread = True
                continue
            if got != want:
                extra, missing = sorted(got - want), sorted(want - got)
                probs.append('children are evaluated as %s (missing %s, unexpected %s)' % (sorted(got), missing, extra))
            if filt:
                probs.append('children are filtered / skipped conditionally (%s)' % filt[0][:80])
            if iters - {'self.ayns.named_children'}:
                probs.append('iteration is not plain self.ayns.named_children() (%s)' % sorted(iters))
            if outside:
                probs.append('evaluation outside the child loop: %s' % norm(outside[0].node)[:60])
            fe = tr.final_event(p)
            rt = fe.value.text if fe is not None and fe.value is not None else ''
            if not (rt.startswith(wrap + '(') or (wrap == 'list' and rt.startswith('['))):
                probs.append('result is %s..., not %s(...)' % (rt[:40], wrap))
        if probs:
            run.violation(rule, fi, norm(fi.node.body[-1])[:200], '; '.join(sorted(set(probs))[:3]), node=fi.node.body[-1])
        elif unread and table_err is not None:
            raise table_err
        else:
            run.ok(rule, fi, '%s(<evaluate_node of %s of every named child>)' % (wrap, 'key and value' if with_key else 'the value'), 'each child evaluated once, in child-map order, through ctx.evaluate_node; no filter')
    nc = repo.func('ComposedNode.ayns.named_children')
    loops = [s for s in walk_no_nested(nc.node) if isinstance(s, ast.For)]
    if len(loops) != 1 or norm(loops[0].iter) != 'self._children.items()':
        raise AnalysisError('named_children shape not recognised')
    a = nc.node.args
    names = [x.arg for x in a.args]
    dv = dict(zip(names[len(names) - len(a.defaults):], a.defaults))
    if 'allow_duplicates' in dv and not (isinstance(dv['allow_duplicates'], ast.Constant) and dv['allow_duplicates'].value is True):
        run.violation(rule, nc, 'named_children(allow_duplicates=%s)' % norm(dv['allow_duplicates']), 'children that are the same node object as an earlier sibling are skipped by default: containers lose entries when a node is shared (e.g. several implicit nulls below a tagged mapping)')
    else:
        run.ok(rule, nc, 'named_children yields self._children.items() in order (duplicates allowed by default)')


def _call_text(e):
    import copy as _c
    return e.result.ast if e.result is not None else e.node


def _inline_locals(fi, e, loop):
    """substitute single-assignment locals of the loop body into expression e (textually, via ast)"""
    defs = {}
    for st in loop.body:
        if isinstance(st, ast.Assign) and len(st.targets) == 1 and isinstance(st.targets[0], ast.Name):
            defs.setdefault(st.targets[0].id, []).append(st.value)
    single = {k: v[0] for k, v in defs.items() if len(v) == 1}

    class S(ast.NodeTransformer):
        def visit_Name(self, n):
            if n.id in single and n.id not in ('data',):
                return self.visit(__import__('copy').deepcopy(single[n.id]))
            return n
    return norm(S().visit(__import__('copy').deepcopy(e)))


def r7(repo, run):
    """{{..}} -> :hex rewriting keeps its offsets consistent when a document holds several metadata blocks"""
    _r7_offsets(repo, run)
    _r7_codec(repo, run)


def _r7_offsets(repo, run):
    # (the shape `beg += offset; end += offset; data = data[:beg] + repl + data[end:]; offset += len(repl) - (end - beg)` is read off the
    # source when the loop is written that way; any other spelling is decided by evaluation alone: unitrules.metadata_syntax_table runs the
    # function on texts with one, two and three blocks)
    fi = repo.func('yaml._encode_all_metadata')
    loops = [st for st in fi.node.body if isinstance(st, ast.For)]
    if len(loops) != 1 or not isinstance(loops[0].target, ast.Tuple) or len(loops[0].target.elts) != 2:
        run.info('C01.R7', fi, 'rewrite loop', 'not in the recognised shape; decided by the evaluated table')
        return
    lp = loops[0]
    b, e_ = [x.id for x in lp.target.elts]
    offs = [st for st in lp.body if isinstance(st, ast.AugAssign) and isinstance(st.op, ast.Add) and isinstance(st.target, ast.Name) and st.target.id not in (b, e_)]
    if len(offs) != 1 or len([st for st in lp.body if isinstance(st, ast.Assign) and norm(st.targets[0]) == 'data']) != 1:
        run.info('C01.R7', fi, 'offset bookkeeping', 'not in the recognised shape; decided by the evaluated table')
        return
    off = offs[0].target.id
    shifted = {st.target.id for st in lp.body if isinstance(st, ast.AugAssign) and isinstance(st.op, ast.Add) and norm(st.value) == off and st.lineno < offs[0].lineno}
    probs = []
    if shifted != {b, e_}:
        probs.append('only %s of the block bounds (%s, %s) are shifted by the accumulated offset' % (sorted(shifted) or 'none', b, e_))
    splice = [st for st in lp.body if isinstance(st, ast.Assign) and norm(st.targets[0]) == 'data']
    if len(splice) != 1:
        raise AnalysisError('_encode_all_metadata: splice not recognised')
    sp = _inline_locals(fi, splice[0].value, lp)
    import re as _re
    m = _re.match(r"^data\[:%s\] \+ (.+) \+ data\[%s:\]$" % (b, e_), sp)
    if not m:
        probs.append('the block is not replaced by data[:%s] + <replacement> + data[%s:] (%s)' % (b, e_, sp[:80]))
    else:
        repl = m.group(1)
        inc = _inline_locals(fi, offs[0].value, lp)
        want = {norm(ast.parse(t, mode='eval').body) for t in ('len(%s) - (%s - %s)' % (repl, e_, b), 'len(%s) - %s + %s' % (repl, e_, b))}
        if inc not in want:
            probs.append('offset grows by %s, expected len(replacement) - (end - begin) = %s' % (inc, sorted(want)[0]))
    init = [st for st in fi.node.body if isinstance(st, ast.Assign) and norm(st.targets[0]) == off and st.lineno < lp.lineno]
    if not init or norm(init[0].value) != '0':
        probs.append('offset does not start at 0')
    if probs:
        run.violation('C01.R7', fi, 'metadata rewrite offsets', '; '.join(probs) + ' - documents with two or more {{...}} blocks are rewritten at wrong positions', node=lp)
    else:
        run.ok('C01.R7', (fi.file, lp.lineno, fi.qualname), 'beg += offset; end += offset; data = data[:beg] + repl + data[end:]; offset += len(repl) - (end - beg)', 'positions stay aligned across several metadata blocks')


def _r7_codec(repo, run):
    enc, dec = repo.func('yaml._encode_metadata'), repo.func('yaml._decode_metadata')
    # (read off the traces, locals substituted; how the decoded mapping is split into node flags and user metadata is decided by
    # evaluation: unitrules.decode_metadata_table)
    enc_rets = {p.ret.text for p in tr.paths_of(repo, enc, follow_exceptions=False) if p.status == 'return' and p.ret is not None}
    dec_loads = {e.args[0].text for p in tr.paths_of(repo, dec, follow_exceptions=False) for e in p.events if e.kind == 'call' and e.callee == 'pickle.loads' and e.args}
    prm_e, prm_d = enc.params()[0], dec.params()[0]
    import re as _re
    dumps_ = r'pickle\.dumps\(%s(, (protocol=)?[\w.]+)?\)' % _re.escape(prm_e)      # (any pickle protocol loads back)
    enc_ok = bool(enc_rets) and all(_re.fullmatch(dumps_ + r'\.hex\(\)', t) or _re.fullmatch(r'bytes\.hex\(' + dumps_ + r'\)', t) for t in enc_rets)      # x.hex() / bytes.hex(x)
    dec_ok = dec_loads == {'bytes.fromhex(%s)' % prm_d}
    if not (enc_ok and dec_ok) and all('pickle.dumps(' in t and ('.hex()' in t or 'bytes.hex(' in t) for t in enc_rets) and all('bytes.fromhex(' in t for t in dec_loads) and enc_rets and dec_loads:
        raise AnalysisError('metadata encoder / decoder use pickle + hex but in a form that is not recognised (%s / %s)' % (sorted(enc_rets)[:1], sorted(dec_loads)[:1]))
    if not (enc_ok and dec_ok):
        run.violation('C01.R7', enc, 'encode: %s; decode: pickle.loads(%s)' % (sorted(enc_rets)[:2], sorted(dec_loads)[:2]), 'metadata encoder and decoder are not the inverse pair pickle.dumps(..).hex() / pickle.loads(bytes.fromhex(..))')
    else:
        run.ok('C01.R7', enc, 'encode: pickle.dumps(m).hex(); decode: pickle.loads(bytes.fromhex(s))', 'inverse pair')


def check(repo, run, tier):
    g = Guard()
    g(r7, repo, run)
    g(r1, repo, run)
    g(check_flag_tags, repo, run, 'C01.R2')
    g(r2b, repo, run)
    g(r3, repo, run)
    g(r4, repo, run)
    g(plain_container_eval, repo, run, 'C01.R5')
    g(ct.pairing, repo, run, 'C01.R6', classes=('ConfigDict',), ops=['__setitem__', '__delitem__', '__init__', 'update'])
    g(ct.pairing, repo, run, 'C01.R6', classes=('ConfigList',), ops=['__init__', 'extend', 'append'])
    g(unitrules.none_scalar_table, repo, run, 'C01.R8')
    g(unitrules.unchecked_path_prefixes, repo, run, 'C01.R9')
    g(unitrules.list_path_table, repo, run, 'C01.R9')
    g(unitrules.decode_metadata_table, repo, run, 'C01.R2')
    g(unitrules.namespace_assembly, repo, run, 'C01.R10')
    g(unitrules.tag_spec, repo, run, 'C01.R2', ['!null'])
    g(unitrules.make_node_table, repo, run, 'C01.R1c')
    g(unitrules.constructor_arguments, repo, run, 'C01.R1c')
    g(unitrules.metadata_syntax_table, repo, run, 'C01.R7')
    g(unitrules.parse_errors, repo, run, 'C01.R6')
    g(unitrules.constructor_error_context, repo, run, 'C01.R6')
    g.done()


def mutants(repo):
    return [
        Mutant('multi-constructor-error-context-is-the-suffix', lambda r: in_func(r, 'yaml.rethrow_as_parsing_error', "node = args[2] if len(args) > 2 else args[1]", "node = args[2] if len(args) > 3 else args[1]"), ['C01.R6']),
        Mutant('null-payload-accepts-a-value', lambda r: in_func(r, 'ConfigNone.__new__', "            raise ValueError(f'!null does not expect any arguments, but got: {value!r}')", "            pass"), ['C01.R8']),
        Mutant('parsing-error-without-node', lambda r: in_func(r, 'yaml.parse', "raise errors.ParsingError(str(e), node=None, path=None) from e", "raise errors.ParsingError(str(e), path=None) from e"), ['C01.R6']),
        Mutant('metadata-end-not-found', lambda r: in_func(r, 'yaml._get_metadata_end', "        if end == -1:", "        if end != -1:"), ['C01.R7']),
        Mutant('constructor-swaps-loader-and-node', lambda r: in_func(r, 'yaml._xref_constructor', "_make_node(loader, node,", "_make_node(node, loader,"), ['C01.R1c']),
        Mutant('constructor-returns-nothing', lambda r: in_func(r, 'yaml._none_constructor_md', "    return _make_node(", "    _make_node("), ['C01.R1c']),
        Mutant('mapping-arguments-dropped', lambda r: in_func(r, 'yaml._make_node', "        kwargs.update(data)\n        return node_type(**kwargs)", "        return node_type(**kwargs)"), ['C01.R1c']),
        Mutant('namespace-members-stay-on-class', lambda r: in_func(r, 'NamespaceableMeta.__init__', "                    delattr(cls, name)\n", "                    pass\n"), ['C01.R10']),
        Mutant('metadata-fields-not-extracted', lambda r: in_func(r, 'yaml._decode_metadata', "        if special in metadata:", "        if special not in metadata:"), ['C01.R2']),
        Mutant('typed-evaluation-paths', lambda r: in_func(r, 'EvalContext.evaluate_node', "NodePath.get_list_path(prefix, check_types=False)", "NodePath.get_list_path(prefix)"), ['C01.R9']),
        Mutant('null-is-true', lambda r: in_func(r, 'ConfigNone.__bool__', "return False", "return True"), ['C01.R8']),
        Mutant('F19-reverted-full-list-refill', lambda r: in_func(r, 'AwesomeyamlLoader.construct_object', "lambda v: aynode.extend(v[len(aynode):])", "aynode.extend"), ['C01.R1d']),
        Mutant('F1-and-F19-reverted', lambda r: {'awesomeyaml/yaml.py': in_func(r, 'AwesomeyamlLoader.construct_object', "lambda v: aynode.extend(v[len(aynode):])", "aynode.extend")['awesomeyaml/yaml.py'].replace("if not deep and not self.deep_construct and value is not aynode:", "if not deep and value is not aynode:")}, ['C01.R1']),
        Mutant('neutral-F1-guard-redundant-with-tail-filler', lambda r: in_func(r, 'AwesomeyamlLoader.construct_object', "if not deep and not self.deep_construct and value is not aynode:", "if not deep and value is not aynode:"), neutral=True),
        Mutant('sequence-filler-dropped', lambda r: in_func(r, 'AwesomeyamlLoader.construct_object', "self.state_generators.append(self._make_generator(value, lambda v: aynode.extend(v[len(aynode):])))", "pass"), ['C01.R1b']),
        Mutant('mapping-filled-with-extend', lambda r: in_func(r, 'AwesomeyamlLoader.construct_object', "self._make_generator(value, aynode.update)", "self._make_generator(value, aynode.extend)"), ['C01.R1b']),
        Mutant('tagged-mapping-constructed-lazily', lambda r: in_func(r, 'yaml._make_node', "loader.construct_mapping(node, deep=True)", "loader.construct_mapping(node)"), ['C01.R1c']),
        Mutant('weak-tag-builds-list', lambda r: in_func(r, 'yaml._weak_constructor', "kwargs={ 'priority': ConfigNode.WEAK })", "kwargs={ 'priority': ConfigNode.WEAK }, parse_scalars=False)"), ['C01.R2']),
        Mutant('tagged-quoted-scalar-resolved-as-plain', lambda r: in_func(r, 'yaml.parse_scalar', "implicit = (True, False) if plain else (False, True)", "implicit = (True, False)"), ['C01.R2b']),
        Mutant('tagged-scalar-not-parsed', lambda r: in_func(r, 'yaml._make_node', "        if not parse_scalars:\n            data = loader.construct_scalar(node)\n        else:\n            data = parse_scalar(loader, node)", "        data = loader.construct_scalar(node)"), ['C01.R2b']),
        Mutant('tagged-digits-answered-without-pyyaml', lambda r: in_func(r, 'yaml.parse_scalar', "    plain = (node.style is None)\n", "    plain = (node.style is None)\n    if plain and node.value.isdigit():\n        return int(node.value)\n"), ['C01.R2b']),
        Mutant('str-treated-as-sequence', lambda r: in_func(r, 'ConfigNodeMeta.__call__', "if isinstance(value, cabc.Sequence) and not isinstance(value, str) and not isinstance(value, bytes):", "if isinstance(value, cabc.Sequence) and not isinstance(value, bytes):"), ['C01.R3']),
        Mutant('mapping-before-sequence-lost', lambda r: in_func(r, 'ConfigNodeMeta.__call__', "elif isinstance(value, cabc.MutableMapping):", "elif isinstance(value, cabc.MutableSet):"), ['C01.R3']),
        Mutant('configbool-leaks', lambda r: in_func(r, 'ConfigScalar._get_value', "if self._dyn_base in [configbool, ConfigNone]:", "if self._dyn_base in [ConfigNone]:"), ['C01.R4']),
        Mutant('native-value-interned', lambda r: in_func(r, 'ConfigScalar._get_native_value', "return self._dyn_base(self)", "return _native_values.setdefault(self._dyn_base(self), self._dyn_base(self))")['awesomeyaml/nodes/scalar.py'].replace("class configbool(int):", "_native_values = {}\n\n\nclass configbool(int):", 1) and
               {'awesomeyaml/nodes/scalar.py': in_func(r, 'ConfigScalar._get_native_value', "return self._dyn_base(self)", "return _native_values.setdefault(self._dyn_base(self), self._dyn_base(self))")['awesomeyaml/nodes/scalar.py'].replace("class configbool(int):", "_native_values = {}\n\n\nclass configbool(int):", 1)}, ['C01.R4b']),
        Mutant('dict-eval-skips-underscore', lambda r: in_func(r, 'ConfigDict.ayns.on_evaluate_impl', "for key, value in self.ayns.named_children())", "for key, value in self.ayns.named_children() if not str(key).startswith('_'))"), ['C01.R5']),
        Mutant('list-eval-sorted', lambda r: in_func(r, 'ConfigList.ayns.on_evaluate_impl', "in self.ayns.named_children())", "in sorted(self.ayns.named_children()))"), ['C01.R5']),
        Mutant('F7-reverted', lambda r: in_func(r, 'ConfigDict.__setitem__', "        return self._set(name, value)", "        if isinstance(name, str) and name.startswith('_'):\n            return dict.__setitem__(self, name, value)\n        return self._set(name, value)"), ['C01.R6']),
        Mutant('metadata-offset-not-applied-to-end', lambda r: in_func(r, 'yaml._encode_all_metadata', "        end += offset\n", ""), ['C01.R7']),
        Mutant('metadata-offset-overwritten', lambda r: in_func(r, 'yaml._encode_all_metadata', "offset += repl_len - orig_len", "offset = repl_len - orig_len"), ['C01.R7']),
        Mutant('neutral-guard-reordered', lambda r: in_func(r, 'AwesomeyamlLoader.construct_object', "if not deep and not self.deep_construct and value is not aynode:", "if value is not aynode and not self.deep_construct and not deep:"), neutral=True),
    ]
