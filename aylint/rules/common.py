"""helpers shared by the per-property rule modules"""
import ast
import itertools

from .. import cfg as cfgmod
from ..fde import FDE, Obj, Opaque, Unsupported
from ..report import AnalysisError
from ..srcmodel import unparse, norm, walk_no_nested, calls_in, fold_const

F3 = [None, True, False]
PRIOS = [None, -1, 0, 1]

_cfg_cache = {}


def cfg_of(fi):
    k = id(fi.node)
    if k not in _cfg_cache:
        _cfg_cache[k] = (fi.node, cfgmod.build(fi.node))
    return _cfg_cache[k][1]


TIER = ['quick']      # current tier (set by __main__.run_rules): tables use larger finite domains under 'thorough'


def thorough():
    return TIER[0] == 'thorough'


def reset_caches():
    _cfg_cache.clear()
    _callers.clear()
    from . import tr
    tr.reset()


def node_obj(name, cls='ConfigNode', **fields):
    base = dict(_idx=None, _priority=None, _delete=None, _allow_new=None, _safe=None,
                _implicit_delete=None, _implicit_allow_new=None, _implicit_safe=None,
                _default_safe=True, _metadata=Opaque('md_' + name), _source_file=None, _pyyaml_node=None)
    base.update(fields)
    return Obj(name, cls, **base)


def is_method_call(call, recv=None, member=None, ayns=None):
    """match <recv>[.ayns].<member>(...)"""
    f = call.func
    if not isinstance(f, ast.Attribute):
        return False
    if member is not None and f.attr != member and not (isinstance(member, (set, tuple, list)) and f.attr in member):
        return False
    r = f.value
    via = isinstance(r, ast.Attribute) and r.attr == 'ayns'
    if ayns is not None and via != ayns:
        return False
    if via:
        r = r.value
    if recv is not None:
        rt = unparse(r)
        if isinstance(recv, (set, tuple, list)):
            return rt in recv
        return rt == recv
    return True


def recv_of(call):
    f = call.func
    if not isinstance(f, ast.Attribute):
        return None
    r = f.value
    if isinstance(r, ast.Attribute) and r.attr == 'ayns':
        r = r.value
    return r


def callee_text(call):
    return unparse(call.func)


def parent_chain(node):
    out = []
    n = node
    while hasattr(n, '_parent'):
        n = n._parent
        out.append(n)
    return out


def enclosing_withs(node, stop=None):
    return [p for p in parent_chain(node) if isinstance(p, (ast.With, ast.AsyncWith))]


def inside_with_calling(node, member):
    """node lies in the *body* of a `with <x>.member(...)` statement"""
    for w in enclosing_withs(node):
        if not any(_contains(s, node) for s in w.body):
            continue
        for it in w.items:
            ce = it.context_expr
            if isinstance(ce, ast.Call) and isinstance(ce.func, ast.Attribute) and ce.func.attr == member:
                return w
            if isinstance(ce, ast.Call) and isinstance(ce.func, ast.Name) and ce.func.id == member:
                return w
    return None


def _contains(root, node):
    for n in ast.walk(root):
        if n is node:
            return True
    return False


def stmts_of(fi):
    return [n for n in walk_no_nested(fi.node) if isinstance(n, ast.stmt)]


def find_stmt_node(cfg, ast_node):
    """the CFG node whose statement contains the given ast node"""
    for n in cfg.stmt_nodes():
        for e in n.exprs():
            if e is ast_node or _contains(e, ast_node):
                return n
    return None


def facts_at(cfg, node, _cache={}):
    k = id(cfg)
    if k not in _cache:
        _cache.clear()
        _cache[k] = (cfg, cfgmod.branch_facts(cfg))
    facts = _cache[k][1].get(node.id)
    return set() if facts is None else set(facts)


def name_defs(fi, name):
    """expressions that may define local `name` in function fi (assignments, for targets, with-as,
    comprehension targets are not followed)"""
    out = []
    for n in walk_no_nested(fi.node):
        if isinstance(n, ast.Assign):
            for t in n.targets:
                if isinstance(t, ast.Name) and t.id == name:
                    out.append(('assign', n.value, n))
                elif isinstance(t, (ast.Tuple, ast.List)):
                    for i, e in enumerate(t.elts):
                        if isinstance(e, ast.Name) and e.id == name:
                            out.append(('unpack', n.value, n, i))
        elif isinstance(n, ast.For):
            t = n.target
            if isinstance(t, ast.Name) and t.id == name:
                out.append(('for', n.iter, n))
            elif isinstance(t, (ast.Tuple, ast.List)):
                for i, e in enumerate(t.elts):
                    if isinstance(e, ast.Name) and e.id == name:
                        out.append(('forunpack', n.iter, n, i))
        elif isinstance(n, ast.AugAssign) and isinstance(n.target, ast.Name) and n.target.id == name:
            out.append(('aug', n.value, n))
    return out


def derives_from(fi, expr, pred, depth=5, _seen=None):
    """does `expr` (syntactically, following local name definitions) derive from a sub-expression
    satisfying pred(node)?"""
    _seen = _seen if _seen is not None else set()
    for n in ast.walk(expr):
        if pred(n):
            return True
    if depth == 0:
        return False
    for n in ast.walk(expr):
        if isinstance(n, ast.Name) and n.id not in _seen:
            _seen.add(n.id)
            for d in name_defs(fi, n.id):
                src = d[1]
                if d[0] in ('forunpack',) and isinstance(src, ast.Call) and unparse(src.func) == 'zip' and len(src.args) > d[3]:
                    src = src.args[d[3]]
                if derives_from(fi, src, pred, depth - 1, _seen):
                    return True
    return False


def product_dicts(**domains):
    keys = list(domains)
    for vals in itertools.product(*[domains[k] for k in keys]):
        yield dict(zip(keys, vals))


def fde_guard(fn):
    """turn Unsupported from the evaluator into an analysis error with context"""
    try:
        return fn()
    except Unsupported as e:
        raise AnalysisError('finite-domain evaluator refused: %s' % e)


def only_returns(fi):
    return [n for n in walk_no_nested(fi.node) if isinstance(n, ast.Return)]


def get_kw(call, name):
    for k in call.keywords:
        if k.arg == name:
            return k.value
    return None


def str_const(e):
    return e.value if isinstance(e, ast.Constant) and isinstance(e.value, str) else None


# ------------------------------------------------------------------------------------------------------------
_callers = {}


def callers_index(repo):
    """FuncInfo.qualname -> set of qualnames of the functions (incl. nested) whose body calls it (resolved calls)"""
    key = id(repo)
    if key not in _callers:
        idx = {}
        for fi in repo.all_functions(include_nested=True):
            for c in calls_in(fi.node, nested=False):
                try:
                    targets = repo.resolve_call(c, fi)
                except Exception:  # noqa
                    targets = []
                for t in targets:
                    idx.setdefault(t.qualname, set()).add(fi.qualname)
            # functions handed over as values (callbacks) count as called by the function that mentions them
            for n in ast.walk(fi.node):
                if isinstance(n, ast.Name) and isinstance(n.ctx, ast.Load) and n.id in fi.module.functions and n.id != fi.name:
                    idx.setdefault(fi.module.functions[n.id].qualname, set()).add(fi.qualname)
        _callers.clear()
        _callers[key] = (repo, idx)
    return _callers[key][1]


def only_reached_from(repo, qualname, allowed, depth=4):
    """True when `qualname` is in `allowed`, or is a private helper / nested function every caller of which (transitively,
    bounded) satisfies the same - i.e. the code was merely moved out of an allowed function"""
    def top(q):
        return q.split('.<locals>')[0]
    if qualname in allowed or top(qualname) in allowed:
        return True
    if depth == 0:
        return False
    name = qualname.split('.')[-1]
    if not name.startswith('_') or name.startswith('__'):
        return False
    cs = callers_index(repo).get(qualname, set())
    if not cs:
        return False
    return all(only_reached_from(repo, c, allowed, depth - 1) for c in cs)


class Guard:
    """runs the rules of a property one after the other; a rule that cannot decide (AnalysisError) does not keep the remaining
    rules from reporting what they find - the first such error is raised once all rules have run (exit 2 unless a violation was
    reported, see __main__)"""

    def __init__(self):
        self.pending = None

    def __call__(self, fn, *args, **kwargs):
        try:
            return fn(*args, **kwargs)
        except AnalysisError as e:
            self.pending = self.pending or e
            return None
        except (KeyboardInterrupt, SystemExit):
            raise
        except Exception as e:  # noqa - a rule that crashes gives no verdict, and does not keep the other rules from reporting
            import traceback
            tb = traceback.extract_tb(e.__traceback__)[-1]
            self.pending = self.pending or AnalysisError('internal error in %s: %s: %s (%s:%d)' % (getattr(fn, '__name__', '?'), type(e).__name__, str(e)[:120], tb.filename.split('/')[-1], tb.lineno))
            return None

    def done(self):
        if self.pending is not None:
            raise self.pending


def builder_obj(repo, name='builder', **fields):
    """a Builder object for evaluated tables: initialised by Builder.__init__ itself (so that whatever state the implementation keeps
    on a builder exists on it), then given the fields the table needs"""
    from ..fde import FDE, Obj, Unsupported
    b = Obj(name, 'Builder')
    try:
        FDE(repo).call(repo.func('Builder.__init__'), b)
    except Exception:  # noqa  (a constructor beyond the evaluator: the plain object the tables used before)
        b = Obj(name, 'Builder')
    for k, v in fields.items():
        b.f[k] = v
        b.missing.discard(k)
    return b


def fs_extcalls(isfile=lambda p: True, cwd='/cwd'):
    """stand-ins for the pure path functions of os / os.path (POSIX flavour) and the file tests, for evaluated tables that feed file names
    to the code under analysis; `isfile` decides which normalised paths exist"""
    import posixpath

    def absn(x):
        return posixpath.normpath(posixpath.join(cwd, str(x)))
    return {'os.path.expanduser': lambda x: x, 'os.path.isfile': lambda x: bool(isfile(absn(x))), 'os.path.exists': lambda x: bool(isfile(absn(x))),
            'os.path.abspath': absn, 'os.path.realpath': absn, 'os.path.normpath': posixpath.normpath, 'os.path.normcase': lambda x: x,
            'os.fspath': lambda x: str(x), 'os.getcwd': lambda: cwd, 'os.path.join': posixpath.join, 'os.path.dirname': posixpath.dirname,
            'os.path.isabs': posixpath.isabs, 'os.path.basename': posixpath.basename, 'os.path.splitext': posixpath.splitext, 'os.path.samefile': lambda a, b: absn(a) == absn(b)}
