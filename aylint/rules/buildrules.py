"""Builder pipeline decided by evaluation (finite-domain evaluator): Builder.preprocess / flatten / build are executed by the
evaluator on a builder object whose stages are abstract nodes; what the stages answer to preprocess / premerge / merge comes
from a table (the same node, a different node, a stream carrying several stages) and is recorded.  Expected: the list of
stages after each step, the order of the calls, the fold of merges."""
from ..fde import FDE, Obj, Opaque, Unsupported
from ..report import AnalysisError

STUBS = {'ConfigNode.ayns.preprocess', 'ConfigNode.ayns.premerge', 'ConfigNode.ayns.merge', '_require_all_new', 'rethrow_point'}


def _node(name, cls='ConfigDict', empty=False):
    o = Obj(name, cls, _children={} if empty else {'k': Obj(name + '.k', 'ConfigScalar')})
    o.missing.add('stages')
    return o


def _stream(name, stages):
    return Obj(name, 'StreamNode', stages=list(stages))


def _run(repo, fn_q, stages, pre=None, prem=None):
    """evaluate Builder.<fn> on a builder with the given stages; pre / prem: {stage name: answer} for preprocess / premerge
    (default: the stage itself).  Returns (result, final stage names, call log)"""
    log = []
    from .common import builder_obj
    b = builder_obj(repo, stages=list(stages), _current_file=None, _current_stage=None)

    def stub(name, recv, args, kwargs):
        if name == 'preprocess':
            log.append(('preprocess', recv.name))
            return (pre or {}).get(recv.name, recv)
        if name == 'premerge':
            log.append(('premerge', recv.name, args[0] if args else kwargs.get('into')))
            return (prem or {}).get(recv.name, recv)
        if name == 'merge':
            log.append(('merge', recv.name, args[0].name))
            return _node('M(%s,%s)' % (recv.name, args[0].name))
        if name == '_require_all_new':
            log.append(('require_all_new', recv.name))
            return None
        if name == 'rethrow_point':
            return None
        raise AnalysisError('builder pipeline: unexpected stub ' + name)
    ev = FDE(repo, stubs=set(STUBS), stub=stub, max_depth=10)
    try:
        r = ev.call(repo.func(fn_q), b)
    except Unsupported as e:
        raise AnalysisError('builder pipeline (%s): finite-domain evaluator refused: %s' % (fn_q, e))
    st = b.f.get('stages')
    names = [getattr(x, 'name', repr(x)) for x in st] if isinstance(st, list) else repr(st)
    return r, names, log


def pipeline_from_sources(repo, run, rule):
    """the documents enter through add_source itself (evaluated; the parser is a stand-in that yields three documents: an include that
    expands to two stages, a second include, a plain mapping) and are then preprocessed: every document that was added is asked to
    preprocess exactly once, whatever add_source noted about it and however earlier stages changed the length of the list"""
    from .common import builder_obj
    bad = []
    inc0, inc1 = Obj('inc0', 'IncludeNode'), Obj('inc1', 'IncludeNode')
    plain = Obj('plain', 'ConfigDict', _children={})
    for o in (inc0, inc1, plain):
        o.missing.add('stages')
    docs = [inc0, inc1, plain]
    b = builder_obj(repo)
    log = []
    s0a, s0b, s1 = _node('s0a'), _node('s0b'), _node('s1')

    def stub(name, recv, args, kwargs):
        if name == 'preprocess':
            log.append(recv.name)
            return {'inc0': _stream('S0', [s0a, s0b]), 'inc1': _stream('S1', [s1])}.get(recv.name, recv)
        if name in ('default_safe_flag', 'default_filename'):
            return Opaque('cm')
        if name == 'nodes':
            return []
        if name == 'rethrow_point':
            return None
        raise Unsupported('call of ' + name)
    ev = FDE(repo, stubs={'ConfigNode.ayns.preprocess', 'default_safe_flag', 'default_filename', 'rethrow_point', 'nodes'}, stub=stub, max_depth=10)
    ev.extcalls = {'yaml.parse': lambda *a, **k: list(docs), 'parse': lambda *a, **k: list(docs)}
    import pathlib
    ev.externals = {'pathlib.Path': pathlib.Path}
    try:
        r1 = ev.call(repo.func('Builder.add_source'), b, 'TEXT', raw_yaml=True)
        if r1.raised or b.f.get('stages') != docs:
            raise AnalysisError('%s: add_source with a stand-in parser not evaluable (%s)' % (rule, r1.raised or b.f.get('stages')))
        r2 = ev.call(repo.func('Builder.preprocess'), b)
    except Unsupported as e:
        raise AnalysisError('builder pipeline (sources, then preprocess): finite-domain evaluator refused: %s' % e)
    names = [getattr(x, 'name', repr(x)) for x in b.f.get('stages', [])]
    if r2.raised:
        bad.append('preprocess raises %s' % r2.raised)
    elif log != ['inc0', 'inc1', 'plain']:
        bad.append('documents added by one add_source call: [include -> 2 stages, include -> 1 stage, plain]; preprocess is asked of %s, expected each of the three once, in order - a document that is skipped keeps its unexpanded !include' % log)
    elif names != ['s0a', 's0b', 's1', 'plain']:
        bad.append('the stages after preprocessing are %s, expected [s0a, s0b, s1, plain]' % names)
    if bad:
        run.violation(rule, repo.func('Builder.preprocess'), 'add_source, then preprocess', '; '.join(bad))
    else:
        run.ok(rule, repo.func('Builder.preprocess'), 'documents added through add_source are each preprocessed once (3 documents, 2 of them expanding)')


def builder_pipeline(repo, run, rule):
    bad = []
    rows = 0
    A, B, C = _node('A'), _node('B'), _node('C')
    B1, B2, C2 = _node('B1'), _node('B2'), _node('C2')
    # --- preprocess: every original stage is preprocessed once, in order; a stream is replaced by its stages (not preprocessed again),
    #     a different node replaces the stage, the same node stays
    for pre, want in (({}, ['A', 'B', 'C']),
                      ({'B': _stream('sB', [B1, B2])}, ['A', 'B1', 'B2', 'C']),
                      ({'A': _stream('sA', [B1, B2]), 'C': C2}, ['B1', 'B2', 'B', 'C2']),
                      ({'C': C2}, ['A', 'B', 'C2']),
                      ({'A': C2, 'B': _stream('sB', [B1]), 'C': _stream('sC', [B2, C2])}, ['C2', 'B1', 'B2', 'C2'])):
        r, names, log = _run(repo, 'Builder.preprocess', [A, B, C], pre=pre)
        rows += 1
        calls = [x[1] for x in log if x[0] == 'preprocess']
        if r.raised:
            bad.append('preprocess raises %s for answers %s' % (r.raised, {k: v.name for k, v in pre.items()}))
        elif names != want:
            bad.append('after preprocess the stages are %s, expected %s (answers: %s)' % (names, want, {k: v.name for k, v in pre.items()}))
        elif calls != ['A', 'B', 'C']:
            bad.append('preprocess is asked of %s, expected each original stage once, in order (A, B, C)' % calls)
    if bad:
        run.violation(rule, repo.func('Builder.preprocess'), 'Builder.preprocess', '; '.join(bad[:3]))
    else:
        run.ok(rule, repo.func('Builder.preprocess'), 'Builder.preprocess evaluated on %d answer tables' % rows, 'each stage preprocessed once in order; streams spliced in place, new nodes replace, unchanged nodes stay')
    # --- flatten: premerge of the first stage (result spliced / replaced), new-path check of the first stage, left fold of merges
    bad = []
    rows = 0
    P, Q, R = _node('P'), _node('Q'), _node('R')
    P2, P3, P4 = _node('P2'), _node('P3'), _node('P4')
    E = _node('E', empty=True)
    for stages, prem, want_first, want_merges in (
            ([P, Q, R], {}, 'P', [('P', 'Q'), ('M(P,Q)', 'R')]),
            ([P, Q, R], {'P': P2}, 'P2', [('P2', 'Q'), ('M(P2,Q)', 'R')]),
            ([P, Q], {'P': _stream('sP', [P3, P4])}, 'P3', [('P3', 'P4'), ('M(P3,P4)', 'Q')]),
            ([P], {}, 'P', []),
            ([P, E, R], {}, 'P', [('P', 'E'), ('M(P,E)', 'R')]),       # E: a document without keys - its flags still apply (`--- !del {}` resets the config)
            ([E, Q], {}, 'E', [('E', 'Q')]),
            ([P], {'P': P2}, 'P2', []),
            ([P, Q], {}, 'P', [('P', 'Q')])):
        r, names, log = _run(repo, 'Builder.flatten', stages, prem=prem)
        rows += 1
        merges = [(x[1], x[2]) for x in log if x[0] == 'merge']
        prems = [x for x in log if x[0] == 'premerge']
        req = [x[1] for x in log if x[0] == 'require_all_new']
        final = want_merges[-1] if want_merges else None
        want_names = ['M(%s,%s)' % final] if final else [want_first] + [s.name for s in stages[1:]]
        what = 'stages %s, premerge answer %s' % ([s.name for s in stages], {k: v.name for k, v in prem.items()} or 'unchanged')
        if r.raised:
            bad.append('flatten raises %s (%s)' % (r.raised, what))
        elif len(prems) != 1 or prems[0][1] != stages[0].name or prems[0][2] is not None:
            bad.append('the first stage is not pre-merged exactly once against an empty tree (%s; %s)' % (prems, what))
        elif merges != want_merges:
            bad.append('merges performed: %s, expected the left fold %s (%s)' % (merges, want_merges, what))
        elif names != want_names:
            bad.append('stages after flatten: %s, expected %s (%s)' % (names, want_names, what))
        elif req != [want_first]:
            bad.append('the new-path check of the first document runs on %s, expected on %s (%s)' % (req, want_first, what))
    r, names, log = _run(repo, 'Builder.flatten', [P, _node('L', 'ConfigList')])
    rows += 1
    if r.raised != 'ValueError':
        bad.append('a stage that is not a mapping is not rejected with ValueError (got %s)' % (r.raised or 'no error'))
    if bad:
        run.violation(rule, repo.func('Builder.flatten'), 'Builder.flatten', '; '.join(bad[:3]))
    else:
        run.ok(rule, repo.func('Builder.flatten'), 'Builder.flatten evaluated on %d stage lists' % rows, 'premerge result of the first stage adopted; left fold; non-mapping stage rejected')
    # --- build: nothing to build -> None; otherwise preprocess, then flatten, the single remaining stage is the result
    bad = []
    r, names, log = _run(repo, 'Builder.build', [])
    if r.raised or r.ret is not None:
        bad.append('build() of an empty builder gives %s' % (r.raised or r.ret))
    r, names, log = _run(repo, 'Builder.build', [A, B], pre={'B': _stream('sB', [B1, B2])})
    kinds = [x[0] for x in log]
    if r.raised:
        bad.append('build() raises %s' % r.raised)
    else:
        if [x[1] for x in log if x[0] == 'preprocess'] != ['A', 'B'] or 'preprocess' in kinds[kinds.index('premerge'):] if 'premerge' in kinds else True:
            bad.append('build() does not preprocess every stage before merging starts (calls: %s)' % [x[:2] for x in log][:8])
        if [(x[1], x[2]) for x in log if x[0] == 'merge'] != [('A', 'B1'), ('M(A,B1)', 'B2')]:
            bad.append('build() does not fold the preprocessed stages in order (merges: %s)' % [(x[1], x[2]) for x in log if x[0] == 'merge'])
        if getattr(r.ret, 'name', None) != 'M(M(A,B1),B2)':
            bad.append('build() returns %s, expected the merged document' % getattr(r.ret, 'name', r.ret))
        elif names != ['M(M(A,B1),B2)']:
            # merging adopts the nodes of later stages into the result in place: the consumed stages must not stay on the builder, or the
            # next build() merges nodes with themselves (a list that replaced its predecessor ends up on both sides and is emptied)
            bad.append('after build() the builder holds the stages %s, expected only the merged document: building again (or adding a source and building) re-merges stages whose nodes are already part of the result' % names)
    if bad:
        run.violation(rule, repo.func('Builder.build'), 'Builder.build', '; '.join(bad[:3]))
    else:
        run.ok(rule, repo.func('Builder.build'), 'Builder.build: None when empty; preprocess all, then flatten, result = the single remaining stage')
