"""C20 - concurrent builds in different threads do not influence each other (necessary conditions only)."""
import ast

from .. import shared
from ..mutate import Mutant, in_func, delete_stmt, in_module
from ..report import AnalysisError
from ..srcmodel import unparse, norm, walk_no_nested, calls_in
from . import tr
from ..tracer import Tracer
from .common import is_method_call, get_kw, inside_with_calling, parent_chain, only_reached_from

PROP = 'C20'
DECIDED = [
    'R1: the three parse-time slots (ConfigNode._default_filename, ConfigNode._default_safe, errors._api_entered) are initialised with threading.local() (a subclass only without __slots__ / class-level value), never rebound, and touched only through an attribute of the local object.',
    'R2: shared-write inventory: every assignment / deletion / mutating call / global rebinding in a function body whose target is rooted in a class, cls, a module-level object or interpreter state (sys.modules ...) - including local aliases and getters that return such objects - is a thread-local slot access (R1) or in the exemption table with a reason.',
    'R3: Builder.add_source parses with a builder (yaml.parse(source, self), so the module-global context is not used) inside both default_safe_flag and default_filename; the context managers and api_entry restore in finally; add_source resets _current_file in finally; Builder._current_* are instance attributes set in __init__; each parse gets its own loader object bound to its own context.',
]
UNDECIDED = ['the interleavings themselves and atomicity of compound updates (no schedule is explored).']

SLOTS = {('ConfigNode', '_default_filename'): 'awesomeyaml/nodes/node.py', ('ConfigNode', '_default_safe'): 'awesomeyaml/nodes/node.py', ('errors', '_api_entered'): 'awesomeyaml/errors.py'}

EXEMPT = {
    # (qualname, root) -> reason
    ('EvalContext.set_default_eval_symbols', 'EvalContext._default_eval_symbols'): 'explicit process-wide configuration API (documented as such)',
    ('ConfigScalarMeta.__init__', 'ConfigScalarMeta._bases'): 'class creation time (import), one write per class object',
    ('ConfigScalarMeta.__init__', 'ConfigScalarMeta._dict'): 'class creation time (import), one write per class object',
    ('ConfigScalarMeta.__call__', 'ConfigScalarMeta._types'): 'memo of dynamically created scalar classes keyed by value type (check-then-act: two threads may each create the class for one value type; the two classes are interchangeable for everything the property observes - values, recorded file, safety - only `type(a) is type(b)` and the short repr of a node can tell them apart)',
    ('NamespaceableMeta.__init__', 'cls'): 'class creation time: installs the ayns namespace on the class being created',
    ('utils.add_module_properties', 'sys.modules'): 'import time only (called from awesomeyaml/__init__.py)',
    ('yaml.global_ctx', '_global_ctx'): 'only used when yaml.parse is called without a builder, which R3 excludes for builds',
    ('EvalNode.ayns.on_evaluate_impl', 'sys.modules'): 'persistent eval namespace - reported under C12.R1 (known finding K1), not a parse-time default',
}


def _slot_init(repo, owner, name):
    if owner in repo.classes:
        return repo.classes[owner].attrs.get(name), repo.classes[owner].module
    m = repo.module(owner)
    return m.globals.get(name), m


def r1(repo, run):
    vanished = []
    _r1(repo, run, vanished)
    if vanished:
        raise AnalysisError('anchor vanished: slot(s) %s' % vanished)


def _r1(repo, run, vanished):
    for (owner, name), _ in SLOTS.items():
        init, mod = _slot_init(repo, owner, name)
        where = (mod.relpath, getattr(init, 'lineno', 0), owner)
        slot = '%s.%s' % (owner, name)
        if init is None:
            vanished.append(slot)
            continue
        ok = isinstance(init, ast.Call) and norm(init.func) == 'threading.local' and not init.args
        if not ok and isinstance(init, ast.Call) and norm(init.func) in repo.classes and 'threading.local' in repo.classes[norm(init.func)].base_exprs:
            ci = repo.classes[norm(init.func)]
            if '__slots__' in ci.attrs or 'value' in ci.attrs:
                run.violation('C20.R1', where, '%s = %s' % (slot, norm(init)), 'slot type %s subclasses threading.local but declares %s: slotted / class-level attributes live in the object, not in the per-thread dict, so `.value` is shared by all threads' % (ci.name, '__slots__' if '__slots__' in ci.attrs else 'a class-level value'))
                continue
            ok = True
        if not ok:
            run.violation('C20.R1', where, '%s = %s' % (slot, norm(init)), 'parse-time default slot is not a threading.local(): concurrent builds overwrite each other\'s current file / safety / API-entry marker')
            continue
        run.ok('C20.R1', where, '%s = %s' % (slot, norm(init)), 'thread-local')
        # every use goes through an attribute of the local object
        n_use = 0
        for fi in repo.all_functions():
            for node in ast.walk(fi.node) if fi.outer is None else []:
                pass
        for m in repo.modules.values():
            for node in ast.walk(m.tree):
                is_ref = False
                if owner in repo.classes:
                    is_ref = isinstance(node, ast.Attribute) and node.attr == name and isinstance(node.value, ast.Name) and node.value.id in (owner, 'cls')
                else:
                    is_ref = isinstance(node, ast.Name) and node.id == name and m is mod or (isinstance(node, ast.Attribute) and node.attr == name and norm(node.value) in ('errors', owner))
                if not is_ref:
                    continue
                par = getattr(node, '_parent', None)
                if isinstance(par, ast.Assign) and node in par.targets and par is not None and getattr(par, '_parent', None) is not None and isinstance(par._parent, (ast.ClassDef, ast.Module)):
                    continue   # the initialisation itself
                n_use += 1
                fine = (isinstance(par, ast.Attribute) and par.value is node) or \
                       (isinstance(par, ast.Call) and isinstance(par.func, ast.Name) and par.func.id in ('getattr', 'hasattr', 'setattr', 'delattr') and par.args and par.args[0] is node and len(par.args) > 1 and isinstance(par.args[1], ast.Constant))
                if isinstance(par, ast.Global):
                    fine = False
                if not fine and isinstance(par, ast.Call) and node in par.args and isinstance(par.func, ast.Name) and par.func.id in m.functions:
                    # handed to a function of the same module that itself touches its parameter only through the per-thread attribute
                    fine = _param_only_via_attribute(m.functions[par.func.id], par.args.index(node), m, 0)
                if fine and isinstance(par, ast.Attribute) and par.value is node and isinstance(par.ctx, ast.Load) and not _set_in_this_thread(par, m):
                    run.violation('C20.R1', (m.relpath, node.lineno, slot), norm(par), 'the per-thread attribute %s.%s is read without a default although nothing on the way from the entry of the function has set it: the attributes of a threading.local exist only in the thread that assigned them - the first use in any other thread raises AttributeError (initialising it at import / decoration time only serves the importing thread)' % (slot, par.attr))
                    continue
                if fine:
                    continue
                run.violation('C20.R1', (m.relpath, node.lineno, slot), norm(par)[:120] if par is not None else slot, 'the thread-local object %s itself is rebound / passed around instead of being accessed through its per-thread attribute' % slot)
        for fi in repo.all_functions():
            for s in walk_no_nested(fi.node):
                if isinstance(s, ast.Global) and name in s.names:
                    run.violation('C20.R1', fi, norm(s), 'slot %s is declared global in a function (it is about to be rebound)' % slot, node=s)
        if n_use < 2:
            raise AnalysisError('slot %s: only %d uses found' % (slot, n_use))
        run.ok('C20.R1', where, '%d uses of %s all through .value / getattr(.., \'value\')' % (n_use, slot))


def r2(repo, run):
    slot_roots = {'%s.%s' % k if k[0] in repo.classes else k[1] for k in SLOTS}
    n = 0
    seen = set()
    for w in shared.shared_writes(repo):
        root = w.root[1]
        top = w.fi
        while top.outer is not None:
            top = top.outer
        n += 1
        where = (w.fi.file, w.node.lineno, w.fi.qualname)
        if root in slot_roots:
            tgt = w.target
            if tgt.endswith('.value') or (w.kind == 'store' and tgt.split('.')[-1] == 'value'):
                run.ok('C20.R2', where, w.text(), 'per-thread attribute of a threading.local slot (R1)')
            else:
                run.violation('C20.R2', w.fi, w.text(), 'write to the slot object %s itself, not to its per-thread attribute' % root, node=w.node)
            continue
        allowed = {q for (q, r_) in EXEMPT if r_ == root}
        moved = None
        if (top.qualname, root) not in EXEMPT and not allowed and w.root[0] == 'class' and root.split('.')[0] in ('cls', 'self', 'type(self)', 'kls', 'klass'):
            # a class-level attribute written through a parameter that holds the class (code moved into a helper taking cls)
            same_attr = {(q, r_) for (q, r_) in EXEMPT if r_.split('.')[-1] == root.split('.')[-1] and r_.split('.')[0] in repo.classes}
            for q, r_ in sorted(same_attr):
                if only_reached_from(repo, top.qualname, {q}):
                    root = r_
                    allowed = {q}
        if (top.qualname, root) not in EXEMPT and allowed and only_reached_from(repo, top.qualname, allowed):
            moved = sorted(allowed)[0]
        if w.kind.startswith('maybe-'):
            key = (top.qualname, root) if moved is None else (moved, root)
            if key in EXEMPT:
                run.ok('C20.R2', where, w.text(), 'possible alias of %s; exempt: %s' % (root, EXEMPT[key]))
            else:
                run.info('C20.R2', where, w.text(), 'possible alias of shared %s (mixed definitions); not decided' % root)
            continue
        key = (top.qualname, root) if moved is None else (moved, root)
        if key in EXEMPT:
            run.ok('C20.R2', where, w.text(), 'exempt: ' + EXEMPT[key] + ('' if moved is None else ' (private helper reached only from %s)' % moved))
        else:
            run.violation('C20.R2', w.fi, w.text(), 'write to process-shared state (%s %s) on a path that builds can reach: two threads building at the same time read / overwrite each other\'s value. Not a thread-local slot and not in the exemption table' % w.root, node=w.node)
    # a ContextDecorator instance is created once per decorated function and re-entered by every call and every thread:
    # per-call state must not be kept on it
    for cname, ci in repo.classes.items():
        if not any(b.split('.')[-1] in ('ContextDecorator', 'AsyncContextDecorator') for b in ci.base_exprs):
            continue
        for mname in ('__enter__', '__exit__', '__aenter__', '__aexit__', '__call__'):
            m = ci.methods.get(mname)
            if m is None:
                continue
            for nd in ast.walk(m.node):
                if isinstance(nd, ast.Attribute) and isinstance(nd.ctx, ast.Store) and isinstance(nd.value, ast.Name) and nd.value.id == 'self':
                    run.violation('C20.R2', m, 'self.%s = ... in %s.%s' % (nd.attr, cname, mname), 'per-call state is stored on a ContextDecorator instance, which is shared by all calls of the decorated function in all threads and at all nesting levels: concurrent / nested entries overwrite each other\'s %s' % nd.attr, node=nd)
                    break
    for cname, attr, muts in shared.class_mutables_via_self(repo):
        fi_, node_ = muts[0]
        run.violation('C20.R2', fi_, '%s.%s mutated through self.%s' % (cname, attr, attr), 'per-instance state lives in a class-level mutable object that is never assigned on the instance: it is shared by all instances and threads (%d mutation sites)' % len(muts), node=node_)
    if n < 10:
        raise AnalysisError('shared-write inventory found only %d writes (expected >= 10)' % n)
    run.floors['C20.R2'] = 10


def _in_finally(node):
    prev = node
    for par in parent_chain(node):
        if isinstance(par, ast.Try) and any(prev is x for x in par.finalbody):
            return True
        prev = par
    return False


def _save_restore(repo, run, fi, slot, what):
    """context manager / wrapper: slot := new ... (yield | call) ... slot := <value read from the slot before>, restored in finally"""
    paths = tr.paths_of(repo, fi, follow_exceptions=False)
    okp = 0
    unknown = None
    for p in paths:
        if p.status != 'return':
            continue
        stores = [(i, e) for i, e in enumerate(p.events) if e.kind == 'store' and e.target == slot]
        mid = [i for i, e in enumerate(p.events) if e.kind == 'yield' or (e.kind == 'call' and e.callee in ('fn', 'func', 'f'))]
        if not mid:
            continue
        before = [x for x in stores if x[0] < mid[0]]
        after = [x for x in stores if x[0] > mid[-1]]
        if not before:
            continue       # pass-through path (already entered)
        if not after:
            run.violation('C20.R3', fi, '%s save/restore' % fi.name, 'the previous %s is not restored after the body' % what)
            return
        last = after[-1][1]
        v = last.value.text if last.value is not None else ''
        reads_slot = slot.rsplit('.', 1)[0] in v or v in ('False', 'None')
        if not reads_slot:
            run.violation('C20.R3', fi, '%s save/restore' % fi.name, 'the value restored (%s) is not the previous %s' % (v[:40], what))
            return
        if not _in_finally(last.node):
            unknown = 'restore of %s is not syntactically inside a finally block (moved into a helper?)' % slot
            continue
        okp += 1
    if not okp:
        if unknown:
            raise AnalysisError('%s: %s' % (fi.qualname, unknown))
        run.violation('C20.R3', fi, '%s save/restore' % fi.name, 'the previous %s is not restored in a finally block' % what)
    else:
        run.ok('C20.R3', fi, '%s: old = slot; slot = new; try: body finally: slot = old' % fi.name)


def _set_in_this_thread(load, m):
    """is the attribute read `<slot>.<attr>` preceded, inside the innermost function that contains it, by something that makes the
    attribute exist in the current thread on every way there: an assignment to it, an `if not hasattr(<slot>, '<attr>'): <assign>`, a
    call of a same-module helper that assigns the attribute of the slot it is handed - or is the read itself inside
    `if hasattr(<slot>, '<attr>')`?  (statements of enclosing functions do not count: they ran at another time, maybe in another thread)"""
    text = norm(load)
    slot_text, attr = norm(load.value), load.attr

    def stores(st):
        return any(isinstance(x, ast.Attribute) and isinstance(x.ctx, ast.Store) and norm(x) == text for x in ast.walk(st))

    def is_hasattr(t):
        return isinstance(t, ast.Call) and isinstance(t.func, ast.Name) and t.func.id == 'hasattr' and len(t.args) == 2 and norm(t.args[0]) == slot_text \
            and isinstance(t.args[1], ast.Constant) and t.args[1].value == attr

    def defines(st):
        if isinstance(st, (ast.Assign, ast.AnnAssign)) and stores(st):
            return True
        if isinstance(st, ast.If):
            t = st.test
            if isinstance(t, ast.UnaryOp) and isinstance(t.op, ast.Not) and is_hasattr(t.operand) and any(defines(x) for x in st.body):
                return True
            if any(defines(x) for x in st.body) and st.orelse and any(defines(x) for x in st.orelse):
                return True
        if isinstance(st, ast.Expr) and isinstance(st.value, ast.Call) and isinstance(st.value.func, ast.Name) and st.value.func.id in m.functions:
            c = st.value
            for i, a in enumerate(c.args):
                if norm(a) == slot_text:
                    g = m.functions[c.func.id]
                    ps = g.node.args.posonlyargs + g.node.args.args
                    if i < len(ps) and any(isinstance(x, ast.Attribute) and isinstance(x.ctx, ast.Store) and x.attr == attr and isinstance(x.value, ast.Name) and x.value.id == ps[i].arg for x in ast.walk(g.node)):
                        return True
        if isinstance(st, ast.Try) and any(defines(x) for x in st.body) and not st.handlers:
            return True
        return False
    cur = load
    while True:
        par = getattr(cur, '_parent', None)
        if par is None or isinstance(par, (ast.FunctionDef, ast.AsyncFunctionDef, ast.Lambda)) and cur is not load and not isinstance(cur, ast.stmt):
            break
        if isinstance(par, ast.If) and cur in par.body and is_hasattr(par.test):
            return True
        for field in ('body', 'orelse', 'finalbody'):
            block = getattr(par, field, None)
            if isinstance(block, list) and cur in block:
                if any(defines(x) for x in block[:block.index(cur)]):
                    return True
                if field == 'finalbody' and isinstance(par, ast.Try) and False:
                    return True
        if isinstance(par, ast.ExceptHandler):
            pass
        if isinstance(par, (ast.FunctionDef, ast.AsyncFunctionDef, ast.Lambda)):
            break
        cur = par
    return False


def _param_only_via_attribute(g, index, m, depth):
    a = g.node.args
    ps = a.posonlyargs + a.args
    if index >= len(ps) or depth > 2:
        return False
    pname = ps[index].arg
    for n in ast.walk(g.node):
        if isinstance(n, ast.Name) and n.id == pname:
            if isinstance(n.ctx, (ast.Store, ast.Del)):
                return False
            par = getattr(n, '_parent', None)
            ok = (isinstance(par, ast.Attribute) and par.value is n) or \
                 (isinstance(par, ast.Call) and isinstance(par.func, ast.Name) and par.func.id in ('getattr', 'hasattr', 'setattr', 'delattr') and par.args and par.args[0] is n and len(par.args) > 1 and isinstance(par.args[1], ast.Constant))
            if not ok and isinstance(par, ast.Call) and n in par.args and isinstance(par.func, ast.Name) and par.func.id in m.functions:
                ok = _param_only_via_attribute(m.functions[par.func.id], par.args.index(n), m, depth + 1)
            if not ok:
                return False
    return True


def r3(repo, run):
    add = repo.func('Builder.add_source')
    paths = tr.paths_of(repo, add, no_inline={'parse', 'get_lookup_dirs'}, follow_exceptions=False)
    n = 0
    verdicts = set()
    for p in paths:
        ps = [(i, e) for i, e in enumerate(p.events) if e.kind == 'call' and e.callee in ('yaml.parse', 'parse')]
        if not ps:
            continue
        n += 1
        for i, e in ps:
            if len(e.args) < 2 or e.args[1].text != 'self':
                verdicts.add(('bad', 'documents are parsed without passing the builder: the module-global parse context (shared by all threads) is used'))
            else:
                verdicts.add(('ok', 'yaml.parse(source, self): parsed with this builder as context'))
            stack = tr.with_stack_at(p, i)
            for cm in ('default_safe_flag', 'default_filename'):
                inside = [w for w in stack if w.startswith('ConfigNode.%s(' % cm)]
                if not inside:
                    verdicts.add(('bad', 'parsing is not wrapped in ConfigNode.%s: nodes pick up whatever default another build left behind' % cm))
                elif cm == 'default_filename' and inside[-1] != 'ConfigNode.default_filename(self._current_file)':
                    verdicts.add(('bad', 'the installed file name (%s) is not this builder\'s current file' % inside[-1][:60]))
                else:
                    verdicts.add(('ok', 'with ConfigNode.%s(...) installed around parsing' % cm))
            resets = [x for x in p.events[i:] if x.kind == 'store' and x.target == 'self._current_file' and x.value is not None and x.value.const is None]
            if not resets:
                verdicts.add(('bad', 'the builder\'s current file is not reset after parsing'))
            elif not _in_finally(resets[-1].node):
                verdicts.add(('bad', 'the builder\'s current file is not reset in a finally block'))
            else:
                verdicts.add(('ok', 'finally: self._current_file = None'))
    if not n:
        raise AnalysisError('Builder.add_source: yaml.parse call not recognised')
    for v in sorted(verdicts):
        (run.ok if v[0] == 'ok' else run.violation)('C20.R3', add, 'add_source', v[1])
    _save_restore(repo, run, repo.func('ConfigNode.default_filename'), 'ConfigNode._default_filename.value', 'default file name')
    _save_restore(repo, run, repo.func('ConfigNode.default_safe_flag'), 'ConfigNode._default_safe.value', 'default safe flag')
    ae = repo.func('errors.api_entry').nested().get('impl')
    if ae is None:
        raise AnalysisError('api_entry.impl not found')
    _save_restore(repo, run, ae, '_api_entered.value', 'API-entry marker')
    init = repo.func('Builder.__init__')
    attrs = set()
    for p in tr.paths_of(repo, init, follow_exceptions=False):
        st = {e.target for e in p.events if e.kind == 'store'}
        attrs = st if not attrs else (attrs & st)
    cls_attrs = set(repo.classes['Builder'].attrs)
    if not {'self._current_file', 'self._current_stage', 'self.stages'} <= attrs or {'_current_file', '_current_stage', 'stages'} & cls_attrs:
        run.violation('C20.R3', init, 'Builder per-instance state', 'stages / _current_file / _current_stage are not plain instance attributes set in __init__')
    else:
        run.ok('C20.R3', init, 'Builder.stages/_current_file/_current_stage are instance attributes')
    pf = repo.func('yaml.parse')
    pp = tr.paths_of(repo, pf, no_inline={'_encode_all_metadata', 'global_ctx'}, follow_exceptions=False)
    loads = [(p, e) for p in pp for e in p.events if e.kind == 'call' and e.callee in ('yaml.load_all', 'yaml.load')]
    if not loads:
        raise AnalysisError('yaml.parse: yaml.load_all call not recognised')
    verdicts = set()
    for p, e in loads:
        ld = e.kw.get('Loader') or (e.args[1] if len(e.args) > 1 else None)
        if ld is not None and ld.closure is None and ld.text in repo.classes:
            verdicts.add(('bad', 'the loader class itself is handed to PyYAML: no per-parse factory binds the builder to the loader instance'))
            continue
        if ld is None or ld.closure is None:
            raise AnalysisError('yaml.parse: the Loader argument of yaml.load_all (%s) is not a function the analysis can follow' % (ld.text[:60] if ld is not None else None))
        t, cps = Tracer(repo, follow_exceptions=False).trace_closure(ld, heap=e.heap)
        for q in cps:
            mk = [x for x in q.events if x.kind == 'call' and x.callee == 'AwesomeyamlLoader']
            if q.status != 'return' or len(mk) != 1 or q.ret is None or q.ret.text != mk[0].result.text:
                verdicts.add(('bad', 'the loader factory does not return a fresh AwesomeyamlLoader'))
                continue
            L = mk[0].result.text
            ctxs = [x for x in q.events if x.kind == 'store' and x.target == L + '.context']
            stack = tr.with_stack_at(p, tr.index_of(p, e))
            entered = {'entered(%s)' % w for w in stack}
            if len(ctxs) == 1 and ctxs[0].value is not None and (ctxs[0].value.text in entered or ctxs[0].value.text in ('filename_or_builder', 'context')):
                verdicts.add(('ok', 'loader = AwesomeyamlLoader(...); loader.context = context: context bound per loader instance'))
            else:
                verdicts.add(('bad', 'the parse context is not bound to the loader *instance*'))
    for v in sorted(verdicts):
        (run.ok if v[0] == 'ok' else run.violation)('C20.R3', pf, 'loader factory', v[1])
    if 'context' in repo.classes['AwesomeyamlLoader'].attrs:
        run.violation('C20.R3', ('awesomeyaml/yaml.py', repo.classes['AwesomeyamlLoader'].node.lineno, 'AwesomeyamlLoader'), 'AwesomeyamlLoader.context', 'class-level context attribute: shared by all parses in all threads')


def check(repo, run, tier):
    pending = None
    for rule in (r1, r2, r3):
        try:
            rule(repo, run)
        except AnalysisError as e:   # a vanished slot must not hide what the inventory still sees
            pending = pending or e
    if pending is not None:
        raise pending


def mutants(repo):
    return [
        Mutant('thread-local-initialised-at-decoration-time', lambda r: in_func(r, 'errors.api_entry', "if getattr(_api_entered, 'value', False) or", "if _api_entered.value or"), ['C20.R1']),
        Mutant('slot-plain-object', lambda r: in_module(r, 'node', "    _default_safe = threading.local()", "    _default_safe = types.SimpleNamespace()"), ['C20.R1']),
        Mutant('slot-slotted-local-subclass', lambda r: in_module(r, 'node', "class ConfigNode(metaclass=ConfigNodeMeta):\n", "class _ParseDefault(threading.local):\n    __slots__ = ('value',)\n\n\nclass ConfigNode(metaclass=ConfigNodeMeta):\n", 1) and
               {'awesomeyaml/nodes/node.py': in_module(r, 'node', "class ConfigNode(metaclass=ConfigNodeMeta):\n", "class _ParseDefault(threading.local):\n    __slots__ = ('value',)\n\n\nclass ConfigNode(metaclass=ConfigNodeMeta):\n")['awesomeyaml/nodes/node.py'].replace("    _default_filename = threading.local()", "    _default_filename = _ParseDefault()")}, ['C20.R1']),
        Mutant('api-entered-module-counter', lambda r: {'awesomeyaml/errors.py': r.module('errors').text.replace("_api_entered = threading.local()", "_api_entered = threading.local()\n_api_depth = 0").replace(
               "        _api_entered.value = True\n        try:", "        global _api_depth\n        _api_depth += 1\n        _api_entered.value = True\n        try:")}, ['C20.R2']),
        Mutant('slot-rebound-in-function', lambda r: in_func(r, 'ConfigNode.default_filename', "        ConfigNode._default_filename.value = filename\n", "        ConfigNode._default_filename = threading.local()\n        ConfigNode._default_filename.value = filename\n"), ['C20.R1', 'C20.R2']),
        Mutant('loader-class-level-context', lambda r: in_func(r, 'yaml.parse', "            loader.context = context\n", "            AwesomeyamlLoader.context = context\n"), ['C20.R2', 'C20.R3']),
        Mutant('nodepath-class-cache', lambda r: in_func(r, 'NodePath.get_list_path', "        if not path:\n            return NodePath()", "        if not path:\n            return NodePath()\n        cls._memo = getattr(cls, '_memo', {})"), ['C20.R2']),
        Mutant('default-symbols-mutated-through-getter', lambda r: in_func(r, 'EvalContext.get_eval_symbols', "        return self._eval_symbols", "        merged = EvalContext.get_default_eval_symbols()\n        merged.update(self._eval_symbols)\n        return merged"), ['C20.R2']),
        Mutant('parse-without-builder', lambda r: in_func(r, 'Builder.add_source', "yaml.parse(source, self)", "yaml.parse(source, self._current_file)"), ['C20.R3']),
        Mutant('default-not-restored', lambda r: in_func(r, 'ConfigNode.default_filename', "        finally:\n            ConfigNode._default_filename.value = old", "        finally:\n            pass"), ['C20.R3']),
        Mutant('neutral-getattr-form', lambda r: in_func(r, 'ConfigNode.default_filename', "        old = ConfigNode._default_filename.value\n", "        old = ConfigNode._default_filename.value\n        _dbg = getattr(ConfigNode._default_filename, 'value', None)\n"), neutral=True),
    ]
