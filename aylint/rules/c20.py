"""C20 - concurrent builds in different threads do not influence each other (necessary conditions only)."""
import ast

from .. import shared
from ..mutate import Mutant, in_func, delete_stmt, in_module
from ..report import AnalysisError
from ..srcmodel import unparse, norm, walk_no_nested, calls_in
from .common import is_method_call, get_kw, inside_with_calling, parent_chain

PROP = 'C20'
DECIDED = [
    'R1: the three parse-time slots (ConfigNode._default_filename, ConfigNode._default_safe, errors._api_entered) are initialised with threading.local() (a subclass only without __slots__ / class-level value), never rebound, and touched only through an attribute of the local object.',
    'R2: shared-write inventory: every assignment / deletion / mutating call / global rebinding in a function body whose target is rooted in a class, cls, a module-level object or interpreter state (sys.modules ...) - including local aliases and getters that return such objects - is a thread-local slot access (R1) or in the exemption table with a reason.',
    'R3: Builder.add_source parses with a builder (yaml.parse(source, self), so the module-global context is not used) inside both default_safe_flag and default_filename; the context managers and api_entry restore in finally; add_source resets _current_file in finally; Builder._current_* are instance attributes set in __init__; each parse gets its own loader object bound to its own context.',
]
UNDECIDED = ['the interleavings themselves and atomicity of compound updates (no schedule is explored).']

SLOTS = {('ConfigNode', '_default_filename'): 'awesomeyaml/nodes/node.py', ('ConfigNode', '_default_safe'): 'awesomeyaml/nodes/node.py', ('errors', '_api_entered'): 'awesomeyaml/errors.py'}

EXEMPT = {
    # (qualname, root) -> reason
    ('EvalContext.set_default_eval_symbols', 'EvalContext._default_eval_symbols'): 'explicit process-wide configuration API (documented as such)',
    ('ConfigScalarMeta.__init__', 'ConfigScalarMeta._bases'): 'class creation time (import), one write per class object',
    ('ConfigScalarMeta.__init__', 'ConfigScalarMeta._dict'): 'class creation time (import), one write per class object',
    ('ConfigScalarMeta.__call__', 'ConfigScalarMeta._types'): 'idempotent memo of dynamically created scalar classes keyed by value type',
    ('NamespaceableMeta.__init__', 'cls'): 'class creation time: installs the ayns namespace on the class being created',
    ('utils.add_module_properties', 'sys.modules'): 'import time only (called from awesomeyaml/__init__.py)',
    ('yaml.global_ctx', '_global_ctx'): 'only used when yaml.parse is called without a builder, which R3 excludes for builds',
    ('EvalNode.ayns.on_evaluate_impl', 'sys.modules'): 'persistent eval namespace - reported under C12.R1 (known finding K1), not a parse-time default',
}


def _slot_init(repo, owner, name):
    if owner in repo.classes:
        return repo.classes[owner].attrs.get(name), repo.classes[owner].module
    m = repo.module(owner)
    return m.globals.get(name), m


def r1(repo, run):
    vanished = []
    _r1(repo, run, vanished)
    if vanished:
        raise AnalysisError('anchor vanished: slot(s) %s' % vanished)


def _r1(repo, run, vanished):
    for (owner, name), _ in SLOTS.items():
        init, mod = _slot_init(repo, owner, name)
        where = (mod.relpath, getattr(init, 'lineno', 0), owner)
        slot = '%s.%s' % (owner, name)
        if init is None:
            vanished.append(slot)
            continue
        ok = isinstance(init, ast.Call) and norm(init.func) == 'threading.local' and not init.args
        if not ok and isinstance(init, ast.Call) and norm(init.func) in repo.classes and 'threading.local' in repo.classes[norm(init.func)].base_exprs:
            ci = repo.classes[norm(init.func)]
            if '__slots__' in ci.attrs or 'value' in ci.attrs:
                run.violation('C20.R1', where, '%s = %s' % (slot, norm(init)), 'slot type %s subclasses threading.local but declares %s: slotted / class-level attributes live in the object, not in the per-thread dict, so `.value` is shared by all threads' % (ci.name, '__slots__' if '__slots__' in ci.attrs else 'a class-level value'))
                continue
            ok = True
        if not ok:
            run.violation('C20.R1', where, '%s = %s' % (slot, norm(init)), 'parse-time default slot is not a threading.local(): concurrent builds overwrite each other\'s current file / safety / API-entry marker')
            continue
        run.ok('C20.R1', where, '%s = %s' % (slot, norm(init)), 'thread-local')
        # every use goes through an attribute of the local object
        n_use = 0
        for fi in repo.all_functions():
            for node in ast.walk(fi.node) if fi.outer is None else []:
                pass
        for m in repo.modules.values():
            for node in ast.walk(m.tree):
                is_ref = False
                if owner in repo.classes:
                    is_ref = isinstance(node, ast.Attribute) and node.attr == name and isinstance(node.value, ast.Name) and node.value.id in (owner, 'cls')
                else:
                    is_ref = isinstance(node, ast.Name) and node.id == name and m is mod or (isinstance(node, ast.Attribute) and node.attr == name and norm(node.value) in ('errors', owner))
                if not is_ref:
                    continue
                par = getattr(node, '_parent', None)
                if isinstance(par, ast.Assign) and node in par.targets and par is not None and getattr(par, '_parent', None) is not None and isinstance(par._parent, (ast.ClassDef, ast.Module)):
                    continue   # the initialisation itself
                n_use += 1
                fine = (isinstance(par, ast.Attribute) and par.value is node) or \
                       (isinstance(par, ast.Call) and isinstance(par.func, ast.Name) and par.func.id in ('getattr', 'hasattr', 'setattr', 'delattr') and par.args and par.args[0] is node and len(par.args) > 1 and isinstance(par.args[1], ast.Constant))
                if isinstance(par, ast.Global):
                    fine = False
                if fine:
                    continue
                run.violation('C20.R1', (m.relpath, node.lineno, slot), norm(par)[:120] if par is not None else slot, 'the thread-local object %s itself is rebound / passed around instead of being accessed through its per-thread attribute' % slot)
        for fi in repo.all_functions():
            for s in walk_no_nested(fi.node):
                if isinstance(s, ast.Global) and name in s.names:
                    run.violation('C20.R1', fi, norm(s), 'slot %s is declared global in a function (it is about to be rebound)' % slot, node=s)
        if n_use < 2:
            raise AnalysisError('slot %s: only %d uses found' % (slot, n_use))
        run.ok('C20.R1', where, '%d uses of %s all through .value / getattr(.., \'value\')' % (n_use, slot))


def r2(repo, run):
    slot_roots = {'%s.%s' % k if k[0] in repo.classes else k[1] for k in SLOTS}
    n = 0
    seen = set()
    for w in shared.shared_writes(repo):
        root = w.root[1]
        top = w.fi
        while top.outer is not None:
            top = top.outer
        n += 1
        where = (w.fi.file, w.node.lineno, w.fi.qualname)
        if root in slot_roots:
            tgt = w.target
            if tgt.endswith('.value') or (w.kind == 'store' and tgt.split('.')[-1] == 'value'):
                run.ok('C20.R2', where, w.text(), 'per-thread attribute of a threading.local slot (R1)')
            else:
                run.violation('C20.R2', w.fi, w.text(), 'write to the slot object %s itself, not to its per-thread attribute' % root, node=w.node)
            continue
        if w.kind.startswith('maybe-'):
            key = (top.qualname, root)
            if key in EXEMPT:
                run.ok('C20.R2', where, w.text(), 'possible alias of %s; exempt: %s' % (root, EXEMPT[key]))
            else:
                run.info('C20.R2', where, w.text(), 'possible alias of shared %s (mixed definitions); not decided' % root)
            continue
        key = (top.qualname, root)
        if key in EXEMPT:
            run.ok('C20.R2', where, w.text(), 'exempt: ' + EXEMPT[key])
        else:
            run.violation('C20.R2', w.fi, w.text(), 'write to process-shared state (%s %s) on a path that builds can reach: two threads building at the same time read / overwrite each other\'s value. Not a thread-local slot and not in the exemption table' % w.root, node=w.node)
    if n < 10:
        raise AnalysisError('shared-write inventory found only %d writes (expected >= 10)' % n)
    run.floors['C20.R2'] = 10


def r3(repo, run):
    add = repo.func('Builder.add_source')
    parses = [c for c in calls_in(add.node) if norm(c.func) in ('yaml.parse', 'parse')]
    if len(parses) != 1:
        raise AnalysisError('Builder.add_source: yaml.parse call not recognised')
    c = parses[0]
    if len(c.args) < 2 or norm(c.args[1]) != 'self':
        run.violation('C20.R3', add, unparse(c), 'documents are parsed without passing the builder: the module-global parse context (shared by all threads) is used', node=c)
    else:
        run.ok('C20.R3', (add.file, c.lineno, add.qualname), unparse(c), 'parsed with this builder as context')
    for cm in ('default_safe_flag', 'default_filename'):
        if inside_with_calling(c, cm):
            run.ok('C20.R3', (add.file, c.lineno, add.qualname), 'with ConfigNode.%s(...)' % cm, 'installed around parsing')
        else:
            run.violation('C20.R3', add, 'with ConfigNode.%s(...)' % cm, 'parsing is not wrapped in ConfigNode.%s: nodes pick up whatever default another build left behind' % cm, node=c)
    w = inside_with_calling(c, 'default_filename')
    if w is not None:
        arg = [it.context_expr for it in w.items if isinstance(it.context_expr, ast.Call) and it.context_expr.func.attr == 'default_filename'][0].args[0]
        if norm(arg) != 'self._current_file':
            run.violation('C20.R3', add, 'default_filename(%s)' % norm(arg), 'the installed file name is not this builder\'s current file')
    tr = [s for s in add.node.body if isinstance(s, ast.Try) and s.finalbody and any(x is c for x in ast.walk(s))]
    if not tr or not any(norm(s) == 'self._current_file = None' for s in tr[0].finalbody):
        run.violation('C20.R3', add, 'finally: self._current_file = None', 'the builder\'s current file is not reset in a finally block')
    else:
        run.ok('C20.R3', (add.file, tr[0].lineno, add.qualname), 'finally: self._current_file = None')
    for q, slot in (('ConfigNode.default_filename', 'ConfigNode._default_filename.value'), ('ConfigNode.default_safe_flag', 'ConfigNode._default_safe.value')):
        fi = repo.func(q)
        tr = [s for s in fi.node.body if isinstance(s, ast.Try)]
        saved = [s for s in fi.node.body if isinstance(s, ast.Assign) and norm(s.value) == slot and isinstance(s.targets[0], ast.Name)]
        okr = tr and saved and any(norm(s) == '%s = %s' % (slot, saved[0].targets[0].id) for s in tr[0].finalbody) and any(isinstance(b, ast.Expr) and isinstance(b.value, ast.Yield) for b in tr[0].body)
        if okr:
            run.ok('C20.R3', fi, '%s: old = slot; slot = new; try: yield finally: slot = old' % fi.name)
        else:
            run.violation('C20.R3', fi, '%s save/restore' % fi.name, 'the previous default is not restored in a finally block')
    ae = repo.func('errors.api_entry').nested().get('impl')
    if ae is None:
        raise AnalysisError('api_entry.impl not found')
    tr = [s for s in ae.node.body if isinstance(s, ast.Try)]
    sets = [s for s in ae.node.body if isinstance(s, ast.Assign) and norm(s) == '_api_entered.value = True']
    if not tr or not sets or not any(norm(s) == '_api_entered.value = False' for s in tr[0].finalbody) or sets[0].lineno > tr[0].lineno:
        run.violation('C20.R3', ae, 'api_entry marker', 'the API-entry marker is not set before the call and cleared in finally')
    else:
        run.ok('C20.R3', ae, '_api_entered.value = True; try: ... finally: _api_entered.value = False')
    init = repo.func('Builder.__init__')
    attrs = {norm(s.targets[0]) for s in walk_no_nested(init.node) if isinstance(s, ast.Assign)}
    cls_attrs = set(repo.classes['Builder'].attrs)
    if not {'self._current_file', 'self._current_stage', 'self.stages'} <= attrs or {'_current_file', '_current_stage', 'stages'} & cls_attrs:
        run.violation('C20.R3', init, 'Builder per-instance state', 'stages / _current_file / _current_stage are not plain instance attributes set in __init__')
    else:
        run.ok('C20.R3', init, 'Builder.stages/_current_file/_current_stage are instance attributes')
    pf = repo.func('yaml.parse')
    gl = pf.nested().get('get_loader')
    ld = [c for c in calls_in(pf.node) if norm(c.func) in ('yaml.load_all', 'yaml.load')]
    if gl is None or not ld or norm(get_kw(ld[0], 'Loader') or ast.Constant(value=None)) != 'get_loader':
        run.violation('C20.R3', pf, unparse(ld[0]) if ld else 'yaml.load_all', 'the loader is not created per parse by a local factory: loader <-> builder binding would be shared')
    else:
        sets_ctx = any(isinstance(s, ast.Assign) and norm(s.targets[0]) == 'loader.context' and norm(s.value) == 'context' for s in walk_no_nested(gl.node))
        makes = any(isinstance(s, ast.Assign) and norm(s.targets[0]) == 'loader' and isinstance(s.value, ast.Call) and norm(s.value.func) == 'AwesomeyamlLoader' for s in walk_no_nested(gl.node))
        if sets_ctx and makes:
            run.ok('C20.R3', gl, 'get_loader: loader = AwesomeyamlLoader(...); loader.context = context', 'context bound per loader instance')
        else:
            run.violation('C20.R3', gl, 'get_loader', 'the parse context is not bound to the loader *instance*')
    if 'context' in repo.classes['AwesomeyamlLoader'].attrs:
        run.violation('C20.R3', ('awesomeyaml/yaml.py', repo.classes['AwesomeyamlLoader'].node.lineno, 'AwesomeyamlLoader'), 'AwesomeyamlLoader.context', 'class-level context attribute: shared by all parses in all threads')


def check(repo, run, tier):
    pending = None
    for rule in (r1, r2, r3):
        try:
            rule(repo, run)
        except AnalysisError as e:   # a vanished slot must not hide what the inventory still sees
            pending = pending or e
    if pending is not None:
        raise pending


def mutants(repo):
    return [
        Mutant('slot-plain-object', lambda r: in_module(r, 'node', "    _default_safe = threading.local()", "    _default_safe = types.SimpleNamespace()"), ['C20.R1']),
        Mutant('slot-slotted-local-subclass', lambda r: in_module(r, 'node', "class ConfigNode(metaclass=ConfigNodeMeta):\n", "class _ParseDefault(threading.local):\n    __slots__ = ('value',)\n\n\nclass ConfigNode(metaclass=ConfigNodeMeta):\n", 1) and
               {'awesomeyaml/nodes/node.py': in_module(r, 'node', "class ConfigNode(metaclass=ConfigNodeMeta):\n", "class _ParseDefault(threading.local):\n    __slots__ = ('value',)\n\n\nclass ConfigNode(metaclass=ConfigNodeMeta):\n")['awesomeyaml/nodes/node.py'].replace("    _default_filename = threading.local()", "    _default_filename = _ParseDefault()")}, ['C20.R1']),
        Mutant('api-entered-module-counter', lambda r: {'awesomeyaml/errors.py': r.module('errors').text.replace("_api_entered = threading.local()", "_api_entered = threading.local()\n_api_depth = 0").replace(
               "        _api_entered.value = True\n        try:", "        global _api_depth\n        _api_depth += 1\n        _api_entered.value = True\n        try:")}, ['C20.R2']),
        Mutant('slot-rebound-in-function', lambda r: in_func(r, 'ConfigNode.default_filename', "        ConfigNode._default_filename.value = filename\n", "        ConfigNode._default_filename = threading.local()\n        ConfigNode._default_filename.value = filename\n"), ['C20.R1', 'C20.R2']),
        Mutant('loader-class-level-context', lambda r: in_func(r, 'yaml.parse', "            loader.context = context\n", "            AwesomeyamlLoader.context = context\n"), ['C20.R2', 'C20.R3']),
        Mutant('nodepath-class-cache', lambda r: in_func(r, 'NodePath.get_list_path', "        if not path:\n            return NodePath()", "        if not path:\n            return NodePath()\n        cls._memo = getattr(cls, '_memo', {})"), ['C20.R2']),
        Mutant('default-symbols-mutated-through-getter', lambda r: in_func(r, 'EvalContext.get_eval_symbols', "        return self._eval_symbols", "        merged = EvalContext.get_default_eval_symbols()\n        merged.update(self._eval_symbols)\n        return merged"), ['C20.R2']),
        Mutant('parse-without-builder', lambda r: in_func(r, 'Builder.add_source', "yaml.parse(source, self)", "yaml.parse(source, self._current_file)"), ['C20.R3']),
        Mutant('default-not-restored', lambda r: in_func(r, 'ConfigNode.default_filename', "        finally:\n            ConfigNode._default_filename.value = old", "        finally:\n            pass"), ['C20.R3']),
        Mutant('neutral-getattr-form', lambda r: in_func(r, 'ConfigNode.default_filename', "        old = ConfigNode._default_filename.value\n", "        old = ConfigNode._default_filename.value\n        _dbg = getattr(ConfigNode._default_filename, 'value', None)\n"), neutral=True),
    ]
