"""helpers for rules written as predicates over tracer paths"""
import ast
import re

from ..report import AnalysisError
from ..srcmodel import norm
from ..tracer import Tracer, NOCONST

_cache = {}


def reset():
    _cache.clear()


def paths_of(repo, fi, no_inline=(), inline_extra=(), follow_exceptions=True, max_paths=24000, mark_carried=False):
    key = (id(repo), id(fi.node), tuple(sorted(no_inline)), tuple(sorted(inline_extra)), follow_exceptions, mark_carried)
    if key not in _cache:
        t = Tracer(repo, no_inline=no_inline, inline_extra=inline_extra, follow_exceptions=follow_exceptions, max_paths=max_paths, mark_carried=mark_carried)
        _cache[key] = (repo, t.trace(fi))
    return _cache[key][1]


def is_call(e, attr=None, recv=None, callee=None, callee_re=None):
    if e.kind != 'call':
        return False
    if attr is not None:
        if isinstance(attr, (set, tuple, list, frozenset)):
            if e.attr not in attr:
                return False
        elif e.attr != attr:
            return False
    if recv is not None:
        r = e.recv.text if e.recv is not None else ''
        if isinstance(recv, (set, tuple, list, frozenset)):
            if r not in recv:
                return False
        elif r != recv:
            return False
    if callee is not None and e.callee != callee:
        return False
    if callee_re is not None and not re.search(callee_re, e.callee or ''):
        return False
    return True


def index_of(path, ev):
    for i, e in enumerate(path.events):
        if e is ev:
            return i
    return -1


def any_before(path, i, pred):
    return any(pred(e) for e in path.events[:i])


def with_stack_at(path, i):
    """texts of the with-contexts that are open at event index i"""
    stack = []
    for e in path.events[:i]:
        if e.kind == 'with_enter':
            stack.append(e.callee)
        elif e.kind == 'with_exit' and stack:
            stack.pop()
    return stack


def final_event(path):
    """the event that ends the path at the level of the traced function (return / raise)"""
    for e in reversed(path.events):
        if e.kind in ('return', 'raise') and e.depth == 0:
            return e
    return None


def top_returns(paths):
    return [(p, final_event(p)) for p in paths if p.status == 'return' and final_event(p) is not None]


def fact(path, text, polarity):
    return (text, polarity) in path.facts


def fact_re(path, pattern, polarity=None):
    for t, pol in path.facts:
        if re.search(pattern, t) and (polarity is None or pol == polarity):
            return (t, pol)
    return None


def where(fi, ev):
    return (fi.file, getattr(ev.node, 'lineno', fi.line) if ev is not None and ev.node is not None else fi.line, fi.qualname)


def describe(path, limit=6):
    return ' & '.join('%s%s' % ('' if pol else 'not ', t[:60]) for t, pol in path.facts[:limit])


# ------------------------------------------------------------------------------------------------------------
# finite-domain evaluation of path facts
class _Unknown(Exception):
    pass


def _ev_const(e, subst):
    t = norm(e)
    if t in subst:
        return subst[t]
    if isinstance(e, ast.Constant):
        return e.value
    if isinstance(e, (ast.List, ast.Tuple, ast.Set)) and not any(isinstance(x, ast.Starred) for x in e.elts):
        vals = [_ev_const(x, subst) for x in e.elts]
        return vals if isinstance(e, ast.List) else (tuple(vals) if isinstance(e, ast.Tuple) else frozenset(vals))
    if isinstance(e, ast.UnaryOp):
        v = _ev_const(e.operand, subst)
        if isinstance(e.op, ast.Not):
            return not v
        if isinstance(e.op, ast.USub):
            return -v
        raise _Unknown()
    if isinstance(e, ast.BoolOp):
        vals = [_ev_const(v, subst) for v in e.values]
        if isinstance(e.op, ast.And):
            r = True
            for v in vals:
                r = v
                if not v:
                    break
            return r
        r = False
        for v in vals:
            r = v
            if v:
                break
        return r
    if isinstance(e, ast.BinOp) and isinstance(e.op, (ast.Add, ast.Sub, ast.LShift, ast.RShift, ast.BitOr, ast.BitAnd, ast.Mult, ast.FloorDiv, ast.Mod)):
        a, b = _ev_const(e.left, subst), _ev_const(e.right, subst)
        if not isinstance(a, (int, float)) or not isinstance(b, (int, float)) or isinstance(a, bool) or isinstance(b, bool):
            raise _Unknown()
        if isinstance(e.op, ast.Add): return a + b
        if isinstance(e.op, ast.Sub): return a - b
        if isinstance(e.op, ast.Mult): return a * b
        if not isinstance(a, int) or not isinstance(b, int):
            raise _Unknown()
        if isinstance(e.op, ast.LShift): return a << b
        if isinstance(e.op, ast.RShift): return a >> b
        if isinstance(e.op, ast.BitOr): return a | b
        if isinstance(e.op, ast.BitAnd): return a & b
        if b == 0:
            raise _Unknown()
        return a // b if isinstance(e.op, ast.FloorDiv) else a % b
    if isinstance(e, ast.Compare):
        left = _ev_const(e.left, subst)
        for op, c in zip(e.ops, e.comparators):
            right = _ev_const(c, subst)
            try:
                if isinstance(op, ast.Lt): r = left < right
                elif isinstance(op, ast.LtE): r = left <= right
                elif isinstance(op, ast.Gt): r = left > right
                elif isinstance(op, ast.GtE): r = left >= right
                elif isinstance(op, ast.Eq): r = left == right
                elif isinstance(op, ast.NotEq): r = left != right
                elif isinstance(op, ast.Is): r = left is right
                elif isinstance(op, ast.IsNot): r = left is not right
                elif isinstance(op, ast.In): r = left in right
                elif isinstance(op, ast.NotIn): r = left not in right
                else: raise _Unknown()
            except TypeError:
                raise _Unknown()
            if not r:
                return False
            left = right
        return True
    if isinstance(e, ast.Call) and isinstance(e.func, ast.Name) and not e.keywords:
        if e.func.id == 'abs' and len(e.args) == 1:
            v = _ev_const(e.args[0], subst)
            if isinstance(v, (int, float)):
                return abs(v)
        if e.func.id == 'isinstance' and len(e.args) == 2 and isinstance(e.args[1], ast.Name) and e.args[1].id in ('int', 'str', 'bool', 'float'):
            v = _ev_const(e.args[0], subst)
            return isinstance(v, {'int': int, 'str': str, 'bool': bool, 'float': float}[e.args[1].id])
        if e.func.id in ('min', 'max') and e.args:
            vals = [_ev_const(a, subst) for a in e.args]
            if all(isinstance(v, (int, float)) for v in vals):
                return min(vals) if e.func.id == 'min' else max(vals)
    raise _Unknown()


def module_consts(module):
    """valuation of the module-level names that are bound once to a literal (numbers, strings, tuples / lists of them)"""
    out = {}
    for name in module.globals:
        g = module.constant_binding(name)
        if g is None or (isinstance(g, (ast.List, ast.Dict, ast.Set)) and module.frozen_display(name) is None and not isinstance(g, ast.Set)):
            continue
        try:
            out[name] = ast.literal_eval(g)
        except (ValueError, TypeError, SyntaxError, MemoryError, RecursionError):
            continue
    return out


def eval_fact(text, subst):
    """truth value of a fact text under a valuation {expression text: python constant}, or None when the fact mentions
    anything the valuation does not determine (own tiny evaluator: constants, comparisons, and/or/not, +/-, abs/min/max,
    isinstance against int/str/bool/float)"""
    try:
        e = ast.parse(text, mode='eval').body
    except SyntaxError:
        return None
    try:
        return bool(_ev_const(e, subst))
    except _Unknown:
        return None


def feasible(path, subst):
    """False when some fact of the path is decided the other way by the valuation; also returns how many facts were decided"""
    decided = 0
    for t, pol in path.facts:
        v = eval_fact(t, subst)
        if v is None:
            continue
        decided += 1
        if v != pol:
            return False, decided
    return True, decided
