"""helpers for rules written as predicates over tracer paths"""
import ast
import re

from ..report import AnalysisError
from ..srcmodel import norm
from ..tracer import Tracer, NOCONST

_cache = {}


def reset():
    _cache.clear()


def paths_of(repo, fi, no_inline=(), inline_extra=(), follow_exceptions=True, max_paths=4000, mark_carried=False):
    key = (id(repo), id(fi.node), tuple(sorted(no_inline)), tuple(sorted(inline_extra)), follow_exceptions, mark_carried)
    if key not in _cache:
        t = Tracer(repo, no_inline=no_inline, inline_extra=inline_extra, follow_exceptions=follow_exceptions, max_paths=max_paths, mark_carried=mark_carried)
        _cache[key] = (repo, t.trace(fi))
    return _cache[key][1]


def is_call(e, attr=None, recv=None, callee=None, callee_re=None):
    if e.kind != 'call':
        return False
    if attr is not None:
        if isinstance(attr, (set, tuple, list, frozenset)):
            if e.attr not in attr:
                return False
        elif e.attr != attr:
            return False
    if recv is not None:
        r = e.recv.text if e.recv is not None else ''
        if isinstance(recv, (set, tuple, list, frozenset)):
            if r not in recv:
                return False
        elif r != recv:
            return False
    if callee is not None and e.callee != callee:
        return False
    if callee_re is not None and not re.search(callee_re, e.callee or ''):
        return False
    return True


def index_of(path, ev):
    for i, e in enumerate(path.events):
        if e is ev:
            return i
    return -1


def any_before(path, i, pred):
    return any(pred(e) for e in path.events[:i])


def with_stack_at(path, i):
    """texts of the with-contexts that are open at event index i"""
    stack = []
    for e in path.events[:i]:
        if e.kind == 'with_enter':
            stack.append(e.callee)
        elif e.kind == 'with_exit' and stack:
            stack.pop()
    return stack


def final_event(path):
    """the event that ends the path at the level of the traced function (return / raise)"""
    for e in reversed(path.events):
        if e.kind in ('return', 'raise') and e.depth == 0:
            return e
    return None


def top_returns(paths):
    return [(p, final_event(p)) for p in paths if p.status == 'return' and final_event(p) is not None]


def fact(path, text, polarity):
    return (text, polarity) in path.facts


def fact_re(path, pattern, polarity=None):
    for t, pol in path.facts:
        if re.search(pattern, t) and (polarity is None or pol == polarity):
            return (t, pol)
    return None


def where(fi, ev):
    return (fi.file, getattr(ev.node, 'lineno', fi.line) if ev is not None and ev.node is not None else fi.line, fi.qualname)


def describe(path, limit=6):
    return ' & '.join('%s%s' % ('' if pol else 'not ', t[:60]) for t, pol in path.facts[:limit])
