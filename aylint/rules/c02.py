"""C02 - merging plain documents is a right-biased recursive mapping update."""
import ast

from ..mutate import Mutant, in_func, delete_stmt
from ..report import AnalysisError
from ..srcmodel import unparse, norm, fold_const, walk_no_nested, calls_in
from .common import is_method_call, get_kw, recv_of
from . import mergerules as mr

PROP = 'C02'
DECIDED = [
    'R1: Builder.flatten is a left fold over all stages (accumulator starts at stages[0], visits 1..n-1 in order, accumulator is the receiver of merge, result replaces stages); merge = premerge + on_merge with an empty path.',
    'R2: path enumeration over one iteration of the key loop of the container merge: every key of the newer mapping is attached (new key), merged in place, attached as merge result, or removed - removal only under an explicit delete flag.',
    'R3: every removal from the older tree in the merge functions is control-dependent on a delete flag of the newer node; the list pre-filter keeps all non-deleting nodes.',
    'R4: leaf rule table: the newer value replaces the older unless the older has strictly higher priority.',
    'R5: lists replace wholesale by default (ConfigList._default_delete True, mappings False); a mapping merged onto a list validates every key strictly and raises MergeError before merging.',
]
UNDECIDED = ['the algebraic law itself as data (equality with an independent fold);', 'leakage between stages through shared node objects.']


def r5(repo, run):
    for cls, exp in (('ConfigList', True), ('ConfigDict', False), ('ConfigNode', False)):
        owner, e = repo.class_attr(cls, '_default_delete')
        ok, v = fold_const(repo, e, owner) if e is not None else (False, None)
        if not ok or v is not exp:
            run.violation('C02.R5', (repo.classes[cls].module.relpath, repo.classes[cls].node.lineno, cls), '%s._default_delete' % cls,
                          '%s deletes by default = %r (expected %r: lists are replaced wholesale, mappings merged)' % (cls, v, exp))
        else:
            run.ok('C02.R5', (repo.classes[cls].module.relpath, repo.classes[cls].node.lineno, cls), '%s._default_delete == %r (from %s)' % (cls, exp, owner))
    li = repo.func('ConfigList.ayns.on_merge_impl')
    guard = [s for s in li.node.body if isinstance(s, ast.If) and norm(s.test) in ('isinstance(other, dict)', 'isinstance(other, ConfigDict)')]
    if len(guard) != 1:
        raise AnalysisError('ConfigList.on_merge_impl: `if isinstance(other, dict)` validation block not recognised')
    blk = guard[0]
    loops = [s for s in blk.body if isinstance(s, ast.For)]
    raises = [s for s in blk.body if isinstance(s, ast.If) and any(isinstance(x, ast.Raise) for x in s.body)]
    if len(loops) != 1 or len(raises) != 1:
        raise AnalysisError('ConfigList.on_merge_impl: validation loop / raise not recognised')
    lp, rz = loops[0], raises[0]
    it = norm(lp.iter)
    problems = []
    if it not in ('other.ayns.children_names()', 'other', 'other.keys()', 'other._children', 'other._children.keys()'):
        problems.append('validation loop iterates %s (not every key of the newer mapping)' % it)
    val = [c for c in calls_in(lp) if is_method_call(c, recv='self', member='_validate_index', ayns=False)]
    tr = [s for s in lp.body if isinstance(s, ast.Try)]
    acc = norm(rz.test)
    if not val or not tr:
        problems.append('keys are not validated with self._validate_index inside try/except')
    else:
        st = get_kw(val[0], 'strict')
        if st is not None and not (isinstance(st, ast.Constant) and st.value is True):
            problems.append('index validation is not strict (%s)' % unparse(val[0]))
        if norm(val[0].args[0]) != unparse(lp.target):
            problems.append('validated value is not the loop key')
        h = tr[0].handlers
        if not h or not any(unparse(x.type) in ('IndexError', '(IndexError, TypeError)', 'Exception') for x in h if x.type is not None):
            problems.append('IndexError of the strict index check is not handled')
        elif not any(isinstance(c.func, ast.Attribute) and c.func.attr == 'append' and unparse(c.func.value) == acc for hh in h for c in calls_in(hh)):
            problems.append('invalid keys are not collected into %s' % acc)
        else:
            for hh in h:
                top = [st for st in hh.body if isinstance(st, ast.Expr) and isinstance(st.value, ast.Call) and isinstance(st.value.func, ast.Attribute) and st.value.func.attr == 'append' and unparse(st.value.func.value) == acc]
                skips = [x for x in ast.walk(ast.Module(body=hh.body, type_ignores=[])) if isinstance(x, (ast.Continue, ast.Break, ast.Return))]
                if not top or skips:
                    problems.append('an out-of-range key is not always reported (the handler of the strict index check skips some keys): such keys are then treated as new entries of the list')
    if not any('MergeError' in unparse(x.exc) for x in rz.body if isinstance(x, ast.Raise) and x.exc is not None):
        problems.append('invalid keys do not raise MergeError')
    sup = [c for c in calls_in(li.node) if is_method_call(c, member='on_merge_impl', ayns=True)]
    if not sup or sup[0].lineno < rz.lineno:
        problems.append('the merge proper (super().ayns.on_merge_impl) is not after the validation')
    if problems:
        run.violation('C02.R5', li, 'mapping-onto-list index validation', '; '.join(problems), node=blk)
    else:
        run.ok('C02.R5', (li.file, blk.lineno, li.qualname), 'mapping onto list: every key strictly validated, MergeError raised before merging')
    # strict validation itself: out-of-range raises
    vi = repo.func('ConfigList._validate_index')
    src = norm(vi.node)
    if 'raise IndexError' not in src or 'and strict' not in src:
        raise AnalysisError('ConfigList._validate_index: strict range check not recognised')
    run.ok('C02.R5', vi, '_validate_index raises IndexError for out-of-range indices when strict')


def check(repo, run, tier):
    mr.flatten_fold(repo, run, 'C02.R1')
    mr.key_loop_paths(repo, run, 'C02.R2')
    mr.removal_guards(repo, run, 'C02.R3')
    mr.leaf_winner_table(repo, run, 'C02.R4')
    r5(repo, run)


def mutants(repo):
    return [
        Mutant('fold-skips-second-stage', lambda r: in_func(r, 'Builder.flatten', "range(1, len(self.stages))", "range(2, len(self.stages))"), ['C02.R1']),
        Mutant('fold-receiver-swapped', lambda r: in_func(r, 'Builder.flatten', "root = root.ayns.merge(self.stages[i])", "root = self.stages[i].ayns.merge(root)"), ['C02.R1']),
        Mutant('fold-reversed', lambda r: in_func(r, 'Builder.flatten', "for i in range(1, len(self.stages)):", "for i in reversed(range(1, len(self.stages))):"), ['C02.R1']),
        Mutant('fold-result-dropped', lambda r: in_func(r, 'Builder.flatten', "        self.stages = [root]", "        self.stages = [self.stages[0]]"), ['C02.R1']),
        Mutant('new-key-not-attached', lambda r: in_func(r, 'ComposedNode.ayns.on_merge_impl', "                    self.ayns.set_child(key, value)\n", "                    pass\n"), ['C02.R2']),
        Mutant('merge-result-not-reattached', lambda r: in_func(r, 'ComposedNode.ayns.on_merge_impl',
               "                        elif possibly_new_child is not child:\n                            self.ayns.set_child(key, possibly_new_child)", "                        elif False:\n                            self.ayns.set_child(key, possibly_new_child)"), ['C02.R2']),
        Mutant('empty-result-removed-without-del', lambda r: in_func(r, 'ComposedNode.ayns.on_merge_impl',
               "if not possibly_new_child and possibly_new_child.ayns.explicit_delete:", "if not possibly_new_child:"), ['C02.R2', 'C02.R3']),
        Mutant('prune-without-delete-flag', lambda r: in_func(r, 'ComposedNode.ayns.on_merge_impl', "            if other.ayns.delete:\n", "            if True:\n"), ['C02.R3']),
        Mutant('prefilter-drops-merging-nodes', lambda r: in_func(r, 'ConfigList.ayns.on_merge_impl', "            if not node.ayns.delete:\n                return True\n", ""), ['C02.R3']),
        Mutant('leaf-keeps-old-on-tie', lambda r: in_func(r, 'ConfigNode.ayns.on_merge_impl', "if self.ayns.has_priority_over(other):", "if self.ayns.has_priority_over(other, True):"), ['C02.R4']),
        Mutant('list-merges-by-default', lambda r: in_func(r, 'ConfigList.__init__', "    def __init__(self, value=None", "    _x = 0\n    def __init__(self, value=None") if False else
               __import__('aylint.mutate', fromlist=['in_module']).in_module(r, 'list', "class ConfigList(ComposedNode, list):\n    _default_delete = True", "class ConfigList(ComposedNode, list):\n    _default_delete = False"), ['C02.R5']),
        Mutant('list-index-validation-lenient', lambda r: in_func(r, 'ConfigList.ayns.on_merge_impl', "self._validate_index(key, strict=True)", "self._validate_index(key, strict=False)"), ['C02.R5']),
        Mutant('neutral-fold-slice-idiom', lambda r: in_func(r, 'Builder.flatten',
               "        for i in range(1, len(self.stages)):\n            root = root.ayns.merge(self.stages[i])", "        for stage in self.stages[1:]:\n            root = root.ayns.merge(stage)"), neutral=True),
    ]
