"""C02 - merging plain documents is a right-biased recursive mapping update."""
import ast

from ..mutate import Mutant, in_func, delete_stmt
from ..report import AnalysisError
from ..srcmodel import unparse, norm, fold_const, walk_no_nested, calls_in
from .common import is_method_call, get_kw, recv_of
from . import mergerules as mr
from . import mergetrace as mt
from . import tr
from . import buildrules
from . import unitrules

from .common import Guard  # noqa: E402

PROP = 'C02'
DECIDED = [
    'R1: Builder.flatten is a left fold over all stages (accumulator starts at stages[0], visits 1..n-1 in order, accumulator is the receiver of merge, result replaces stages); merge = premerge + on_merge with an empty path.',
    'R1b: Builder.preprocess / flatten / build evaluated on tables of stage answers (see C06.R9): every stage takes part, in order, exactly once; the pre-merge result of the first stage is what the fold starts from.',
    'R2: path enumeration over one iteration of the key loop of the container merge: every key of the newer mapping is attached (new key), merged in place, attached as merge result, or removed - removal only under an explicit delete flag.',
    'R3: every removal from the older tree in the merge functions is control-dependent on a delete flag of the newer node; the list pre-filter keeps all non-deleting nodes.',
    'R4: leaf rule table: the newer value replaces the older unless the older has strictly higher priority.',
    'R6: every override of ayns.on_merge_impl is one of the implementations the rules decide; ConfigDict.ayns.on_merge_impl is a pure delegation to the container merge on every path.',
    'R5: lists replace wholesale by default (ConfigList._default_delete True, mappings False); a mapping merged onto a list validates every key strictly and raises MergeError before merging.',
    'R3b: filter_nodes evaluated on a two-level tree for every verdict table (see C04.R9).',
]
UNDECIDED = ['the algebraic law itself as data (equality with an independent fold);', 'leakage between stages through shared node objects.']


def r5(repo, run):
    for cls, exp in (('ConfigList', True), ('ConfigDict', False), ('ConfigNode', False)):
        owner, e = repo.class_attr(cls, '_default_delete')
        ok, v = fold_const(repo, e, owner) if e is not None else (False, None)
        if not ok or v is not exp:
            run.violation('C02.R5', (repo.classes[cls].module.relpath, repo.classes[cls].node.lineno, cls), '%s._default_delete' % cls,
                          '%s deletes by default = %r (expected %r: lists are replaced wholesale, mappings merged)' % (cls, v, exp))
        else:
            run.ok('C02.R5', (repo.classes[cls].module.relpath, repo.classes[cls].node.lineno, cls), '%s._default_delete == %r (from %s)' % (cls, exp, owner))
    # mapping onto list: decided on the traces (exception edges followed, _validate_index inlined) of
    # ConfigList.ayns.on_merge_impl, with the path facts evaluated for concrete keys against a list of length 3
    li = repo.func('ConfigList.ayns.on_merge_impl')
    paths = tr.paths_of(repo, li, no_inline=set(mt.NI), follow_exceptions=True)
    KEYS = ('each(sorted(other.ayns.children_names()))', 'each(sorted(other._children))', 'each(list(other.ayns.children_names()))', 'each(other.ayns.children_names())', 'each(other)', 'each(other.keys())', 'each(other._children)', 'each(other._children.keys())', 'each(other._children.items())[0]', 'each(other.ayns.named_children())[0]')
    mp = [p for p in paths if tr.fact(p, 'isinstance(other, dict)', True) or tr.fact(p, 'isinstance(other, ConfigDict)', True)]
    if not mp:
        raise AnalysisError('ConfigList.on_merge_impl: mapping-onto-list branch not recognised')
    texts = ' '.join(t for p in mp for t, _ in p.facts)
    K = [k for k in KEYS if k in texts]
    if not K:
        # nothing on the mapping branch iterates the keys of the newer mapping.  When nothing there even looks at the newer node
        # before the container merge (apart from the pre-filter), the keys are positively not validated
        looks = False
        reaches = False
        for p in mp:
            sup = [i for i, e in enumerate(p.events) if e.kind == 'call' and e.attr == 'on_merge_impl']
            if p.status != 'return' or not sup:
                continue
            reaches = True
            for e in p.events[:sup[0]]:
                if e.kind == 'call' and e.attr not in ('filter_nodes', 'isinstance') and e.callee not in ('isinstance',) \
                        and ('other' in (e.recv.text if e.recv is not None else '') or any('other' in a.text for a in e.args)):
                    looks = True
        if reaches and not looks:
            run.violation('C02.R5', li, 'mapping-onto-list index validation', 'a mapping merged onto a list reaches the key-wise merge without its keys being looked at: out-of-range keys are appended / accepted instead of raising MergeError')
            return
        raise AnalysisError('ConfigList.on_merge_impl: validation of mapping keys not recognised')
    K = max(K, key=len)
    iterated = [p for p in mp if any(K in t for t, _ in p.facts) or any(e.in_loop for e in p.events)]
    LEN = 3
    bad = []
    decided_any = 0
    for k in (-5, -4, -3, -2, -1, 0, 1, 2, 3, 4, 'x'):
        valid = isinstance(k, int) and -LEN <= k < LEN
        sub = {K: k, 'len(self)': LEN}
        feas = []
        for p in iterated:
            ok_, d = tr.feasible(p, sub)
            decided_any += d
            if ok_:
                feas.append(p)
        completes = [p for p in feas if p.status == 'return' and any(e.kind == 'call' and e.attr == 'on_merge_impl' for e in p.events)]
        if valid and not completes:
            bad.append('the valid index %r of a list of length %d is rejected' % (k, LEN))
        if not valid and completes:
            # a completing path only counts when nothing the valuation leaves open could still depend on the keys: an undecided
            # condition computed from the key collection (or from a helper object filled while scanning it) means "not known"
            src = K[len('each('):-1] if K.startswith('each(') and K.endswith(')') else K
            def _open(p_):
                # (a condition that is a function of the key alone is decided - possibly by a TypeError - and is not "open")
                return [t for t, pol in p_.facts if not t.startswith('comprehension-filter:') and tr.eval_fact(t, sub) is None and (src in t or '$obj' in t or 'generated(' in t)
                        and tr.eval_fact(t.replace(K, '0'), {'len(self)': LEN}) is None]
            if all(_open(p_) for p_ in completes):
                raise AnalysisError('ConfigList.on_merge_impl: whether the invalid key %r is rejected depends on a condition the analysis cannot evaluate (%s)' % (k, _open(completes[0])[0][:120]))
            completes = [p_ for p_ in completes if not _open(p_)]
            bad.append('the out-of-range / invalid key %r is accepted for a list of length %d (merged as if it were a new entry): %s' % (k, LEN, tr.describe(completes[0], 8)))
        if not valid and isinstance(k, int) and not any(p.status == 'raise' and p.ret is not None and 'MergeError' in p.ret.text[:40] for p in feas):
            bad.append('the out-of-range key %r does not raise MergeError' % (k,))
    if not decided_any:
        raise AnalysisError('ConfigList.on_merge_impl: validation of mapping keys not recognised (no path condition mentions the key)')
    if bad:
        run.violation('C02.R5', li, 'mapping-onto-list index validation', '; '.join(bad[:3]))
    else:
        run.ok('C02.R5', li, 'mapping onto list: keys -5..4 and a non-integer against length 3', 'merge proceeds iff -len <= key < len; MergeError otherwise (path conditions evaluated per key)')
    # strict validation itself, evaluated per index against a list of length 3
    vi = repo.func('ConfigList._validate_index')
    vp = tr.paths_of(repo, vi, follow_exceptions=False)
    ps = vi.params()
    if len(ps) < 3:
        raise AnalysisError('ConfigList._validate_index: (self, index, strict) signature not recognised')
    bad = []
    rows = 0
    for LEN, k in [(n_, k_) for n_ in (0, 1, 3) for k_ in range(-n_ - 2, n_ + 3)]:
        for strict in (True, False):
            sub = {ps[1]: k, ps[2]: strict, 'len(self)': LEN}
            feas = [p for p in vp if tr.feasible(p, sub)[0]]
            rows += 1
            if len(feas) != 1:
                raise AnalysisError('ConfigList._validate_index: %d feasible paths for index %r (path conditions not decided)' % (len(feas), k))
            p = feas[0]
            valid = -LEN <= k < LEN
            if strict and not valid:
                if p.status != 'raise' or 'IndexError' not in p.ret.text[:30]:
                    bad.append('strict validation of index %r against length %d does not raise IndexError' % (k, LEN))
            elif p.status != 'return':
                bad.append('index %r (strict=%r) is rejected for length %d' % (k, strict, LEN))
            else:
                try:
                    got = tr._ev_const(p.ret.ast, sub)
                except tr._Unknown:
                    raise AnalysisError('ConfigList._validate_index: returned position %s not evaluable' % p.ret.text[:60])
                want = min(LEN, max(0, k if k >= 0 else LEN + k))
                if got != want:
                    bad.append('index %r maps to position %r in a list of length %d (expected %r)' % (k, got, LEN, want))
    LEN = 3
    run.table('C02.R5:_validate_index', rows, 'index -(n+2)..(n+2) x strict against lengths n = 0, 1, 3')
    if bad:
        run.violation('C02.R5', vi, '_validate_index table', '; '.join(bad[:3]))
    else:
        run.ok('C02.R5', vi, '_validate_index raises IndexError for out-of-range indices when strict; normalises negative indices (%d rows)' % rows)


MERGE_OVERRIDES = {'ConfigNode': 'leaf rule (R4)', 'ComposedNode': 'container merge (R2, R3)', 'ConfigList': 'index validation + pre-filter, then the container merge (R3, R5)',
                   'FunctionNode': 'target / argument table (C13.R3), then the container merge', 'ConfigDict': 'pure delegation (R6)'}


def r6(repo, run):
    """merge implementations: every override of ayns.on_merge_impl is one the rules look at; ConfigDict's is a pure delegation to the
    container merge on every path (no shortcut that keeps or drops content by itself)"""
    for fi in repo.cha('on_merge_impl', ayns=True):
        c = fi.cls.name
        if c not in MERGE_OVERRIDES:
            run.violation('C02.R6', fi, '%s.ayns.on_merge_impl' % c, 'merge rule overridden in %s outside the implementations the rules decide (%s)' % (c, sorted(MERGE_OVERRIDES)))
        else:
            run.ok('C02.R6', fi, '%s.ayns.on_merge_impl' % c, MERGE_OVERRIDES[c])
    fi = repo.func('ConfigDict.ayns.on_merge_impl')
    ps = fi.params()
    bad = None
    paths = tr.paths_of(repo, fi, no_inline=set(mt.NI), follow_exceptions=False)
    for p in paths:
        sup = [e for e in p.events if e.kind == 'call' and e.attr == 'on_merge_impl']
        if p.status != 'return' or len(sup) != 1 or p.ret is None or p.ret.text != sup[0].result.text or [a.text for a in sup[0].args][-2:] != ps[1:3] \
                or any(e.kind in ('store',) or (e.kind == 'call' and e is not sup[0] and e.callee != 'super') for e in p.events):
            bad = p
    if bad is not None or not paths:
        run.violation('C02.R6', fi, 'ConfigDict.ayns.on_merge_impl', 'the mapping merge does not simply delegate to the container merge: a path %s [%s]' % (('returns ' + bad.ret.text[:50]) if bad is not None and bad.ret is not None else 'does something else', tr.describe(bad, 5) if bad is not None else ''))
    else:
        run.ok('C02.R6', fi, 'return super().ayns.on_merge_impl(prefix, other)', 'no mapping-specific shortcut')


def check(repo, run, tier):
    g = Guard()
    g(r6, repo, run)
    g(mr.flatten_fold, repo, run, 'C02.R1')
    g(buildrules.builder_pipeline, repo, run, 'C02.R1b')
    g(mr.key_loop_paths, repo, run, 'C02.R2')
    g(mr.removal_guards, repo, run, 'C02.R3')
    g(unitrules.filter_nodes_table, repo, run, 'C02.R3b')
    g(mr.leaf_winner_table, repo, run, 'C02.R4')
    g(r5, repo, run)
    g(unitrules.list_prefilter_guard, repo, run, 'C02.R3')
    g(unitrules.list_merge_keys_table, repo, run, 'C02.R5')
    g(unitrules.child_lookup_exact, repo, run, 'C02.R5')
    g.done()


def mutants(repo):
    return [
        Mutant('child-lookup-tolerant-of-spelling', lambda r: in_func(r, 'ComposedNode.ayns.get_child', "            return self._children.get(name, default)", "            if name not in self._children and isinstance(name, str) and name.isdigit():\n                name = int(name)\n            return self._children.get(name, default)"), ['C02.R5']),
        Mutant('key-equal-to-length-accepted', lambda r: in_func(r, 'ConfigList._validate_index', "(abs(index) > len(self) or index == len(self)) and strict", "abs(index) > len(self) and strict"), ['C02.R5']),
        Mutant('only-a-truthy-stray-key-is-an-error', lambda r: in_func(r, 'ConfigList.ayns.on_merge_impl', "            if _missing_keys:", "            if _missing_keys and _missing_keys[0]:"), ['C02.R5']),
        Mutant('prefilter-guard-negated', lambda r: in_func(r, 'ConfigList.ayns.on_merge_impl', "if isinstance(other, ComposedNode):", "if not isinstance(other, ComposedNode):"), ['C02.R3']),
        Mutant('fold-skips-second-stage', lambda r: in_func(r, 'Builder.flatten', "range(1, len(self.stages))", "range(2, len(self.stages))"), ['C02.R1']),
        Mutant('fold-receiver-swapped', lambda r: in_func(r, 'Builder.flatten', "root = root.ayns.merge(self.stages[i])", "root = self.stages[i].ayns.merge(root)"), ['C02.R1']),
        Mutant('fold-reversed', lambda r: in_func(r, 'Builder.flatten', "for i in range(1, len(self.stages)):", "for i in reversed(range(1, len(self.stages))):"), ['C02.R1']),
        Mutant('fold-result-dropped', lambda r: in_func(r, 'Builder.flatten', "        self.stages = [root]", "        self.stages = [self.stages[0]]"), ['C02.R1']),
        Mutant('new-key-not-attached', lambda r: in_func(r, 'ComposedNode.ayns.on_merge_impl', "                    self.ayns.set_child(key, value)\n", "                    pass\n"), ['C02.R2']),
        Mutant('merge-result-not-reattached', lambda r: in_func(r, 'ComposedNode.ayns.on_merge_impl',
               "                        elif possibly_new_child is not child:\n                            self.ayns.set_child(key, possibly_new_child)", "                        elif False:\n                            self.ayns.set_child(key, possibly_new_child)"), ['C02.R2']),
        Mutant('empty-result-removed-without-del', lambda r: in_func(r, 'ComposedNode.ayns.on_merge_impl',
               "if not possibly_new_child and possibly_new_child.ayns.explicit_delete:", "if not possibly_new_child:"), ['C02.R2', 'C02.R3']),
        Mutant('prune-without-delete-flag', lambda r: in_func(r, 'ComposedNode.ayns.on_merge_impl', "            if other.ayns.delete:\n", "            if True:\n"), ['C02.R3']),
        Mutant('prefilter-drops-merging-nodes', lambda r: in_func(r, 'ConfigList.ayns.on_merge_impl', "            if not node.ayns.delete:\n                return True\n", ""), ['C02.R3']),
        Mutant('leaf-keeps-old-on-tie', lambda r: in_func(r, 'ConfigNode.ayns.on_merge_impl', "if self.ayns.has_priority_over(other):", "if self.ayns.has_priority_over(other, True):"), ['C02.R4']),
        Mutant('list-merges-by-default', lambda r: in_func(r, 'ConfigList.__init__', "    def __init__(self, value=None", "    _x = 0\n    def __init__(self, value=None") if False else
               __import__('aylint.mutate', fromlist=['in_module']).in_module(r, 'list', "class ConfigList(ComposedNode, list):\n    _default_delete = True", "class ConfigList(ComposedNode, list):\n    _default_delete = False"), ['C02.R5']),
        Mutant('list-index-validation-lenient', lambda r: in_func(r, 'ConfigList.ayns.on_merge_impl', "self._validate_index(key, strict=True)", "self._validate_index(key, strict=False)"), ['C02.R5']),
        Mutant('validate-index-accepts-len', lambda r: in_func(r, 'ConfigList._validate_index', "(abs(index) > len(self) or index == len(self)) and strict", "abs(index) > len(self) and strict"), ['C02.R5']),
        Mutant('validate-index-rejects-minus-len', lambda r: in_func(r, 'ConfigList._validate_index', "abs(index) > len(self)", "abs(index) >= len(self)"), ['C02.R5']),
        Mutant('list-validation-handler-skips-negative', lambda r: in_func(r, 'ConfigList.ayns.on_merge_impl', "                except IndexError:\n", "                except IndexError:\n                    if key < 0:\n                        continue\n"), ['C02.R5']),
        Mutant('neutral-validate-index-two-ifs', lambda r: in_func(r, 'ConfigList._validate_index', "        if (abs(index) > len(self) or index == len(self)) and strict:\n            raise IndexError('List index out of range')",
               "        if strict:\n            if index >= len(self) or -index > len(self):\n                raise IndexError('List index out of range')"), neutral=True),
        Mutant('neutral-fold-slice-idiom', lambda r: in_func(r, 'Builder.flatten',
               "        for i in range(1, len(self.stages)):\n            root = root.ayns.merge(self.stages[i])", "        for stage in self.stages[1:]:\n            root = root.ayns.merge(stage)"), neutral=True),
    ]
