"""C14 - a build succeeds iff no !required placeholder survives merging."""
import ast

from .. import cfg as cfgmod
from ..mutate import Mutant, in_func, delete_stmt
from ..report import AnalysisError
from ..srcmodel import unparse, norm, walk_no_nested, calls_in
from .common import is_method_call, cfg_of, get_kw, recv_of
from .tagtable import constructors

PROP = 'C14'
DECIDED = [
    'R1: in Config.__init__ the placeholder scan (check_missing on the source tree) precedes the deep copy and the evaluation on every path.',
    'R2: complete scan: check_missing visits every node position (nodes_with_paths with recursion and duplicates on, or map_nodes without result caching), tests isinstance(node, RequiredNode), has no early exit in the loop, and raises iff the collected list is non-empty with all collected paths in the message.',
    'R3: the tree walk descends by type (isinstance(child, ComposedNode)), not by is_leaf (function nodes claim is_leaf but have argument children), passes recursion on and yields every non-container child.',
    'R4: !required / !required: constructors build RequiredNode.',
]
UNDECIDED = ['which placeholders survive a given merge history is decided by C02-C04, not here.']


def r1(repo, run):
    fi = repo.func('Config.__init__')
    g = cfg_of(fi)
    sinks = g.find_calls(lambda c: is_method_call(c, member='evaluate', ayns=False) or norm(c.func) in ('copy.deepcopy', 'deepcopy', 'copy.copy'))
    if not any(is_method_call(c, member='evaluate', ayns=False) for n, c in sinks):
        raise AnalysisError('Config.__init__: evaluate call not found')
    is_gate = lambda c: is_method_call(c, member='check_missing') and c.args
    seen, _ = cfgmod.must_have_seen(g, is_gate)
    gate_calls = [c for n, c in g.find_calls(is_gate)]
    for n, c in sinks:
        if cfgmod.dominated_by_gate(g, n, c, is_gate, seen):
            run.ok('C14.R1', (fi.file, c.lineno, fi.qualname), unparse(c), 'preceded by Config.check_missing on every path')
        else:
            run.violation('C14.R1', fi, unparse(c), 'the config is copied / evaluated on a path that has not scanned it for !required placeholders first (dynamic nodes run before the missing-value error)', node=c)
    # the scanned tree is the one that gets evaluated
    ev = [c for n, c in sinks if is_method_call(c, member='evaluate')][0]
    if gate_calls:
        scanned = norm(gate_calls[0].args[0])
        src = [s for s in walk_no_nested(fi.node) if isinstance(s, ast.Assign) and norm(s.targets[0]) == 'self._source']
        if src and norm(src[0].value) != scanned:
            run.violation('C14.R1', fi, unparse(gate_calls[0]), 'the scanned tree (%s) is not the merged source tree (%s)' % (scanned, norm(src[0].value)), node=gate_calls[0])


def r2(repo, run):
    fi = repo.func('Config.check_missing')
    cfg_param = fi.params()[0] if fi.is_static else fi.params()[1]
    loops = [s for s in walk_no_nested(fi.node) if isinstance(s, ast.For)]
    maps = [c for c in calls_in(fi.node) if is_method_call(c, member='map_nodes', ayns=True)]
    probs = []
    acc = None
    if loops and isinstance(loops[0].iter, ast.Call) and is_method_call(loops[0].iter, recv=cfg_param, member=('nodes_with_paths',), ayns=True):
        lp = loops[0]
        it = lp.iter
        for kw, bad in (('recursive', False), ('allow_duplicates', False)):
            v = get_kw(it, kw)
            if v is not None and isinstance(v, ast.Constant) and v.value is bad:
                probs.append('walk called with %s=%s' % (kw, bad))
        early = [s for s in ast.walk(lp) if isinstance(s, (ast.Break, ast.Return, ast.Raise, ast.Continue))]
        if early:
            probs.append('early exit inside the scan loop (%s)' % norm(early[0]))
        tests = [s for s in lp.body if isinstance(s, ast.If)]
        if len(tests) != 1 or norm(tests[0].test) != 'isinstance(%s, RequiredNode)' % norm(lp.target.elts[1]):
            probs.append('loop body does not test isinstance(node, RequiredNode) for every visited node')
        else:
            ap = [c for c in calls_in(tests[0]) if isinstance(c.func, ast.Attribute) and c.func.attr == 'append']
            if not ap or norm(lp.target.elts[0]) not in norm(ap[0].args[0]):
                probs.append('the path of a found placeholder is not collected')
            else:
                acc = norm(ap[0].func.value)
        visit = 'for path, node in %s' % norm(it)
    elif maps:
        c = maps[0]
        cr = get_kw(c, 'cache_results')
        if not (isinstance(cr, ast.Constant) and cr.value is False):
            probs.append('scan through map_nodes with result caching (default): a placeholder node reachable from several positions (YAML alias) is visited once, the other paths are not listed')
        visit = unparse(c)[:80]
        for s in ast.walk(fi.node):
            if isinstance(s, ast.Call) and isinstance(s.func, ast.Attribute) and s.func.attr == 'append':
                acc = norm(s.func.value)
    else:
        raise AnalysisError('check_missing: scan idiom not recognised')
    rz = [s for s in fi.node.body if isinstance(s, ast.If) and any(isinstance(b, ast.Raise) for b in s.body)]
    if acc is not None:
        if len(rz) != 1 or norm(rz[0].test) != acc:
            probs.append('does not raise exactly when the collected list %s is non-empty' % acc)
        elif acc not in norm(rz[0].body[-1]):
            probs.append('the error message does not include the collected paths')
    if probs:
        run.violation('C14.R2', fi, visit, '; '.join(probs))
    else:
        run.ok('C14.R2', fi, visit, 'every position visited, all placeholder paths collected and reported')


def r3(repo, run):
    fi = repo.func('ComposedNode.ayns.nodes_with_paths')
    loops = [s for s in walk_no_nested(fi.node) if isinstance(s, ast.For) and norm(s.iter) == 'self._children.items()']
    if len(loops) != 1:
        raise AnalysisError('nodes_with_paths: child loop not recognised')
    lp = loops[0]
    child = lp.target.elts[1].id
    dec = [s for s in lp.body if isinstance(s, ast.If) and any(isinstance(x, ast.Expr) and isinstance(x.value, ast.Yield) for x in s.body) and s.orelse]
    if len(dec) != 1:
        raise AnalysisError('nodes_with_paths: leaf / recurse decision not recognised')
    d = dec[0]
    t = norm(d.test)
    want = 'not recursive or not isinstance(%s, ComposedNode)' % child
    if t != want:
        if 'is_leaf' in t:
            run.violation('C14.R3', fi, t, 'the walk decides by is_leaf whether to descend: function nodes (!call/!bind) declare is_leaf=True but hold argument children, so placeholders inside call arguments are never visited', node=d)
        else:
            run.violation('C14.R3', fi, t, 'recursion criterion differs from `%s`' % want, node=d)
    else:
        run.ok('C14.R3', (fi.file, d.lineno, fi.qualname), t, 'descends into every ComposedNode child')
    rec = [c for c in calls_in(ast.Module(body=d.orelse, type_ignores=[])) if is_method_call(c, recv=child, member='nodes_with_paths', ayns=True)]
    if not rec or norm(get_kw(rec[0], 'recursive') or ast.Constant(value=None)) != 'recursive' or norm(get_kw(rec[0], 'include_self') or ast.Constant(value=None)) != 'True' or norm(get_kw(rec[0], 'prefix') or ast.Constant(value=None)) != 'child_path':
        run.violation('C14.R3', fi, unparse(rec[0]) if rec else 'recursive call', 'recursive walk must be child.nodes_with_paths(prefix=child_path, recursive=recursive, include_self=True)')
    else:
        run.ok('C14.R3', (fi.file, rec[0].lineno, fi.qualname), unparse(rec[0])[:110])
    a = fi.node.args
    names = [x.arg for x in a.args]
    dv = dict(zip(names[len(names) - len(a.defaults):], a.defaults))
    if not (isinstance(dv.get('recursive'), ast.Constant) and dv['recursive'].value is True and isinstance(dv.get('allow_duplicates'), ast.Constant) and dv['allow_duplicates'].value is True):
        run.violation('C14.R3', fi, 'defaults of nodes_with_paths', 'the walk is not recursive / skips duplicates by default')
    else:
        run.ok('C14.R3', fi, 'nodes_with_paths defaults: recursive=True, allow_duplicates=True')


def r4(repo, run):
    table = constructors(repo)
    for tag in ('!required', '!required:'):
        e = table.get(tag)
        if e is None or e.node_type != 'RequiredNode':
            run.violation('C14.R4', e.fi if e else ('awesomeyaml/yaml.py', 0, '<module>'), tag, '%s does not build a RequiredNode' % tag)
        else:
            run.ok('C14.R4', (e.fi.file, e.make.lineno, e.fi.qualname), '%s -> RequiredNode' % tag)


def check(repo, run, tier):
    r1(repo, run)
    r2(repo, run)
    r3(repo, run)
    r4(repo, run)


def mutants(repo):
    return [
        Mutant('lazy-check-after-evaluate', lambda r: in_func(r, 'Config.__init__', "            Config.check_missing(config_dict)\n", ""), ['C14.R1']),
        Mutant('check-after-deepcopy-evaluate', lambda r: in_func(r, 'Config.__init__',
               "            Config.check_missing(config_dict)\n            self._source = config_dict\n            pre_evaluate = copy.deepcopy(config_dict)\n            if eval_ctx is None:\n                eval_ctx = EvalContext()\n            evaluated = eval_ctx.evaluate(pre_evaluate)\n",
               "            self._source = config_dict\n            pre_evaluate = copy.deepcopy(config_dict)\n            if eval_ctx is None:\n                eval_ctx = EvalContext()\n            evaluated = eval_ctx.evaluate(pre_evaluate)\n            Config.check_missing(config_dict)\n"), ['C14.R1']),
        Mutant('scan-stops-at-first', lambda r: in_func(r, 'Config.check_missing', "                missing.append(repr(path))\n", "                missing.append(repr(path))\n                break\n"), ['C14.R2']),
        Mutant('scan-not-recursive', lambda r: in_func(r, 'Config.check_missing', "cfg.ayns.nodes_with_paths()", "cfg.ayns.nodes_with_paths(recursive=False)"), ['C14.R2']),
        Mutant('scan-through-caching-map', lambda r: in_func(r, 'Config.check_missing',
               "        for path, node in cfg.ayns.nodes_with_paths():\n            if isinstance(node, RequiredNode):\n                missing.append(repr(path))\n",
               "        def visit(path, node):\n            if isinstance(node, RequiredNode):\n                missing.append(repr(path))\n            return node\n        cfg.ayns.map_nodes(visit)\n"), ['C14.R2']),
        Mutant('walk-by-is_leaf', lambda r: in_func(r, 'ComposedNode.ayns.nodes_with_paths', "if not recursive or not isinstance(child, ComposedNode):", "if not recursive or child.ayns.is_leaf:"), ['C14.R3']),
        Mutant('required-tag-builds-plain-node', lambda r: in_func(r, 'yaml._required_constructor', "node_type=RequiredNode", "node_type=ConfigNode"), ['C14.R4']),
        Mutant('neutral-scan-via-uncached-map', lambda r: in_func(r, 'Config.check_missing',
               "        for path, node in cfg.ayns.nodes_with_paths():\n            if isinstance(node, RequiredNode):\n                missing.append(repr(path))\n",
               "        def visit(path, node):\n            if isinstance(node, RequiredNode):\n                missing.append(repr(path))\n            return node\n        cfg.ayns.map_nodes(visit, cache_results=False)\n"), neutral=True),
    ]
