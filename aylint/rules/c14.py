"""C14 - a build succeeds iff no !required placeholder survives merging."""
import ast

from .. import cfg as cfgmod
from ..mutate import Mutant, in_func, delete_stmt
from ..report import AnalysisError
from ..srcmodel import unparse, norm, walk_no_nested, calls_in
from .common import is_method_call, cfg_of, get_kw, recv_of
from .tagtable import constructors
from . import tr
from . import unitrules
from ..fde import FDE
from .common import node_obj, fde_guard

from .common import Guard  # noqa: E402

PROP = 'C14'
DECIDED = [
    'R1: in Config.__init__ the placeholder scan (check_missing on the source tree) precedes the deep copy and the evaluation on every path.',
    'R2: complete scan: check_missing visits every node position (nodes_with_paths with recursion and duplicates on, or map_nodes without result caching), tests isinstance(node, RequiredNode), has no early exit in the loop, and raises iff the collected list is non-empty with all collected paths in the message.',
    'R3: the tree walk descends by type (isinstance(child, ComposedNode)), not by is_leaf (function nodes claim is_leaf but have argument children), passes recursion on and yields every non-container child.',
    'R4: !required / !required: constructors build RequiredNode.',
    'R5: Config.__init__ evaluated for 5 argument shapes: the required-value check runs on the merged tree before anything is evaluated, whatever context is passed; a deep copy is what gets evaluated.',
]
UNDECIDED = ['which placeholders survive a given merge history is decided by C02-C04, not here.']


def r1(repo, run):
    """on every path of Config.__init__ that copies / evaluates the tree, Config.check_missing(<that tree>) has run before"""
    fi = repo.func('Config.__init__')
    paths = tr.paths_of(repo, fi, no_inline={'evaluate', 'check_missing', '__init__'}, follow_exceptions=False)
    n = 0
    verdicts = {}
    for p in paths:
        sinks = [(i, e) for i, e in enumerate(p.events) if e.kind == 'call' and (e.attr == 'evaluate' or e.callee in ('copy.deepcopy', 'deepcopy', 'copy.copy'))]
        if not any(e.attr == 'evaluate' for _, e in sinks):
            continue
        n += 1
        gates = [(i, e) for i, e in enumerate(p.events) if e.kind == 'call' and e.attr == 'check_missing' and e.args]
        src = [x for x in p.events if x.kind == 'store' and x.target == 'self._source' and x.value is not None]
        for i, e in sinks:
            if gates and gates[0][0] < i:
                verdicts.setdefault(('ok', id(e.node)), (e, 'preceded by Config.check_missing on every path'))
            else:
                verdicts.setdefault(('bad', id(e.node)), (e, 'the config is copied / evaluated on a path that has not scanned it for !required placeholders first (dynamic nodes run before the missing-value error)'))
        if gates and src and gates[0][1].args[0].text != src[0].value.text:
            verdicts.setdefault(('bad', 'tree'), (gates[0][1], 'the scanned tree (%s) is not the merged source tree (%s)' % (gates[0][1].args[0].text[:40], src[0].value.text[:40])))
    if not n:
        raise AnalysisError('Config.__init__: evaluate call not found')
    for (kind, _), (e, why) in verdicts.items():
        (run.ok if kind == 'ok' else run.violation)('C14.R1', tr.where(fi, e), e.callee[:60], why)


def _tree():
    """root{a: leaf, f: CallNode{x: RequiredNode}, d: ConfigDict{y: RequiredNode, z: leaf}, dup: <same RequiredNode as d.y>}"""
    req1 = node_obj('req1', 'RequiredNode')
    req2 = node_obj('req2', 'RequiredNode')
    la, lz = node_obj('leaf_a', 'ConfigNode'), node_obj('leaf_z', 'ConfigNode')
    f = node_obj('call', 'CallNode', _children={'x': req1})
    d = node_obj('dict', 'ConfigDict', _children={'y': req2, 'z': lz})
    root = node_obj('root', 'ConfigDict', _children={'a': la, 'f': f, 'd': d, 'dup': req2})
    return root, dict(req1=req1, req2=req2, la=la, lz=lz, f=f, d=d)


def r2(repo, run):
    """Config.check_missing evaluated with the walk replaced by a fixed sequence of (path, node) pairs: raises exactly when a
    RequiredNode is among them and names every such path; the walk is asked for every position (recursive, duplicates)"""
    fi = repo.func('Config.check_missing')
    probs = []
    rows = 0
    req1, req2 = node_obj('req1', 'RequiredNode'), node_obj('req2', 'RequiredNode')
    plain = node_obj('plain', 'ConfigNode')
    for seq, want in (([('p/a', plain)], []), ([('p/a', plain), ('p/b', req1)], ['p/b']), ([('p/r', req1), ('p/a', plain), ('p/s', req2), ('p/t', req2)], ['p/r', 'p/s', 'p/t']), ([], [])):
        cfg = node_obj('cfg', 'ConfigDict', _children={})
        walks = []

        def stub(name, recv, args, kwargs, walks=walks, seq=seq):
            walks.append((name, recv, list(args), dict(kwargs)))
            if name == 'map_nodes':
                # model of map_nodes over the same positions: with result caching (the default) a node object is handed to the
                # callback once, however many positions it occupies
                fn = holder[0].as_callable(args[0] if args else kwargs['map_fn'])
                seen = set()
                for pth, nd in seq:
                    if kwargs.get('cache_results', True) and id(nd) in seen:
                        continue
                    seen.add(id(nd))
                    fn(pth, nd)
                return recv
            return list(seq)
        holder = []
        f = FDE(repo, stubs={'nodes_with_paths', 'map_nodes', 'nodes'}, stub=stub)
        holder.append(f)
        r = fde_guard(lambda: f.call(fi, *([cfg] if fi.is_static else [('class', 'Config'), cfg])))
        rows += 1
        if len(walks) != 1 or walks[0][1] is not cfg or walks[0][0] not in ('nodes_with_paths', 'map_nodes'):
            raise AnalysisError('check_missing: scan idiom not recognised')
        kw = walks[0][3]
        for k, bad in (('recursive', False), ('allow_duplicates', False)):
            if kw.get(k, True) is bad:
                probs.append('walk called with %s=%s' % (k, bad))
        if want and not r.raised:
            probs.append('placeholders at %s do not fail the build' % want)
        elif not want and r.raised:
            probs.append('a tree without placeholders is rejected (%s)' % r.raised)
        elif want:
            msg = ' '.join(str(a) for a in (r.raised_args or []))
            if r.raised_args is None:
                raise AnalysisError('check_missing: error message not evaluable')
            lost = [w for w in want if w not in msg]
            if lost:
                probs.append('the error message does not include the collected paths %s (placeholders present at %s)' % (lost, want))
    run.table('C14.R2', rows, 'check_missing over visited (path, node) sequences')
    if probs:
        run.violation('C14.R2', fi, 'placeholder scan', '; '.join(sorted(set(probs))))
    else:
        run.ok('C14.R2', fi, 'placeholder scan table (%d rows)' % rows, 'every position asked for, all placeholder paths collected and reported')


def r3(repo, run):
    """ComposedNode.ayns.nodes_with_paths evaluated on a small tree (generator collected): every node object below the root is
    visited, containers are entered by type (also those that call themselves leaves), shared nodes are reported at every position"""
    fi = repo.func('ComposedNode.ayns.nodes_with_paths')
    root, n = _tree()
    def _pfx(name, recv, args, kwargs):
        for c in [recv] + list(args):
            if isinstance(c, list):
                return list(c)
        return ['root']
    f = FDE(repo, stubs={'get_list_path'}, stub=_pfx)
    f.generators = True
    r = fde_guard(lambda: f.call(fi, root))
    if r.raised or not isinstance(r.ret, list):
        raise AnalysisError('nodes_with_paths: not evaluable as a generator (%s)' % r.raised)
    got = [x[1] for x in r.ret if isinstance(x, (tuple, list)) and len(x) == 2]
    paths = [tuple(x[0]) for x in r.ret if isinstance(x, (tuple, list)) and len(x) == 2 and isinstance(x[0], (list, tuple))]
    want = [n['la'], n['f'], n['req1'], n['d'], n['req2'], n['lz'], n['req2']]
    names = lambda xs: [getattr(o, 'name', repr(o)) for o in xs]
    if got != want:
        missing = [o for o in want if o not in got]
        if n['req1'] in missing:
            why = 'the walk does not descend into a function node (declares is_leaf=True but holds argument children): placeholders inside call arguments are never visited'
        elif got.count(n['req2']) < 2:
            why = 'a node reachable from several positions is reported once only (duplicates skipped by default)'
        else:
            why = 'visited %s, expected %s' % (names(got), names(want))
        run.violation('C14.R3', fi, 'tree walk', why)
    elif len(paths) == len(want) and paths != [('root', 'a'), ('root', 'f'), ('root', 'f', 'x'), ('root', 'd'), ('root', 'd', 'y'), ('root', 'd', 'z'), ('root', 'dup')]:
        run.violation('C14.R3', fi, 'tree walk', 'paths reported with the nodes are %s' % (paths,))
    else:
        run.ok('C14.R3', fi, 'nodes_with_paths on a 4-level tree: %s' % names(got), 'descends into every ComposedNode child (incl. function nodes), reports shared nodes at every position')
    # non-recursive walk and include_self
    f2 = FDE(repo, stubs={'get_list_path'}, stub=_pfx)
    f2.generators = True
    r2_ = fde_guard(lambda: f2.call(fi, root, recursive=False, include_self=True))
    got2 = [x[1] for x in (r2_.ret or [])]
    if got2 != [root, n['la'], n['f'], n['d'], n['req2']]:
        run.violation('C14.R3', fi, 'tree walk (recursive=False, include_self=True)', 'visited %s' % names(got2))


def r4(repo, run):
    table = constructors(repo)
    for tag in ('!required', '!required:'):
        e = table.get(tag)
        if e is None or e.node_type != 'RequiredNode':
            run.violation('C14.R4', e.fi if e else ('awesomeyaml/yaml.py', 0, '<module>'), tag, '%s does not build a RequiredNode' % tag)
        else:
            run.ok('C14.R4', (e.fi.file, e.make.lineno, e.fi.qualname), '%s -> RequiredNode' % tag)


def check(repo, run, tier):
    g = Guard()
    g(r1, repo, run)
    g(r2, repo, run)
    g(r3, repo, run)
    g(r4, repo, run)
    g(unitrules.config_entry, repo, run, 'C14.R5')
    g(unitrules.tag_spec, repo, run, 'C14.R2', ['!required'])
    g(unitrules.small_node_tables, repo, run, 'C14.R2', 'required')
    g.done()


def mutants(repo):
    return [
        Mutant('required-accepts-a-value', lambda r: in_func(r, 'RequiredNode.__init__', "            raise ValueError(f'!required does not expect any arguments, but got: {value!r}')", "            pass"), ['C14.R2']),
        Mutant('check-missing-only-for-default-context', lambda r: in_func(r, 'Config.__init__', "            Config.check_missing(config_dict)\n            self._source = config_dict", "            if eval_ctx is None:\n                Config.check_missing(config_dict)\n            self._source = config_dict"), ['C14.R5', 'C14.R1']),
        Mutant('lazy-check-after-evaluate', lambda r: in_func(r, 'Config.__init__', "            Config.check_missing(config_dict)\n", ""), ['C14.R1']),
        Mutant('check-after-deepcopy-evaluate', lambda r: in_func(r, 'Config.__init__',
               "            Config.check_missing(config_dict)\n            self._source = config_dict\n            pre_evaluate = copy.deepcopy(config_dict)\n            if eval_ctx is None:\n                eval_ctx = EvalContext()\n            evaluated = eval_ctx.evaluate(pre_evaluate)\n",
               "            self._source = config_dict\n            pre_evaluate = copy.deepcopy(config_dict)\n            if eval_ctx is None:\n                eval_ctx = EvalContext()\n            evaluated = eval_ctx.evaluate(pre_evaluate)\n            Config.check_missing(config_dict)\n"), ['C14.R1']),
        Mutant('scan-stops-at-first', lambda r: in_func(r, 'Config.check_missing', "                missing.append(repr(path))\n", "                missing.append(repr(path))\n                break\n"), ['C14.R2']),
        Mutant('scan-not-recursive', lambda r: in_func(r, 'Config.check_missing', "cfg.ayns.nodes_with_paths()", "cfg.ayns.nodes_with_paths(recursive=False)"), ['C14.R2']),
        Mutant('scan-through-caching-map', lambda r: in_func(r, 'Config.check_missing',
               "        for path, node in cfg.ayns.nodes_with_paths():\n            if isinstance(node, RequiredNode):\n                missing.append(repr(path))\n",
               "        def visit(path, node):\n            if isinstance(node, RequiredNode):\n                missing.append(repr(path))\n            return node\n        cfg.ayns.map_nodes(visit)\n"), ['C14.R2']),
        Mutant('walk-by-is_leaf', lambda r: in_func(r, 'ComposedNode.ayns.nodes_with_paths', "if not recursive or not isinstance(child, ComposedNode):", "if not recursive or child.ayns.is_leaf:"), ['C14.R3']),
        Mutant('required-tag-builds-plain-node', lambda r: in_func(r, 'yaml._required_constructor', "node_type=RequiredNode", "node_type=ConfigNode"), ['C14.R4']),
        Mutant('neutral-scan-via-uncached-map', lambda r: in_func(r, 'Config.check_missing',
               "        for path, node in cfg.ayns.nodes_with_paths():\n            if isinstance(node, RequiredNode):\n                missing.append(repr(path))\n",
               "        def visit(path, node):\n            if isinstance(node, RequiredNode):\n                missing.append(repr(path))\n            return node\n        cfg.ayns.map_nodes(visit, cache_results=False)\n"), neutral=True),
    ]
