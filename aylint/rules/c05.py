"""C05 - merging is local."""
from ..mutate import Mutant, in_func
from . import mergerules as mr
from . import unitrules
from . import mergetrace as mt
from . import pathrules as pr

from .common import Guard  # noqa: E402

PROP = 'C05'
DECIDED = [
    'R1c: each pruning predicate compares the entry it decides with the node found by one lookup of that entry\'s own path in the opposite tree (no cached / re-descended counterpart).',
    'R1: over every on_merge_impl / on_premerge_impl in the package, the absolute path threaded through the recursion is used for lookups only on the merge root; lookups inside the nodes being merged use paths relative to them (path-base typing); removed-set and new-path walk share one base.',
    'R2: the recursion passes path + [key] (not path, not [key]) and the loop key to the child merge.',
    'R3: every node method that hands its own (path, operand) pair on to the next layer (super(), a sub-build, the *_impl of the same step) hands it on in the same order.',
]
UNDECIDED = ['sibling independence and wrapping invariance as data (a relational statement over pairs of runs).']


def check(repo, run, tier):
    g = Guard()
    g(pr.typed_lookups, repo, run, 'C05.R1')
    g(pr.removed_set_bases, repo, run, 'C05.R1')
    g(mt.counterpart_lookup, repo, run, 'C05.R1c')
    g(pr.no_unpacked_list_paths, repo, run, 'C05.R1d')
    g(mr.key_loop_paths, repo, run, 'C05.R2')
    g(unitrules.delegation_argument_order, repo, run, 'C05.R3')
    g.done()


def mutants(repo):
    return [
        Mutant('path-and-operand-swapped', lambda r: in_func(r, 'IncludeNode.ayns.on_preprocess_impl', "on_preprocess(path, builder)", "on_preprocess(builder, path)"), ['C05.R3']),
        Mutant('F5-reverted', lambda r: in_func(r, 'ComposedNode.ayns.on_merge_impl', "get_first_not_missing_node(path[_prefix_len:])", "get_first_not_missing_node(path)"), ['C05.R1']),
        Mutant('extend-looks-up-relative', lambda r: in_func(r, 'ExtendNode.ayns.on_premerge_impl', "node = into.ayns.get_node(path)", "node = into.ayns.get_node(path[len(path):])"), ['C05.R1']),
        Mutant('recursion-drops-prefix', lambda r: in_func(r, 'ComposedNode.ayns.on_merge_impl', "possibly_new_child = child.ayns.on_merge(path + [key], value)", "possibly_new_child = child.ayns.on_merge(NodePath([key]), value)"), ['C05.R2']),
        Mutant('neutral-comment', lambda r: in_func(r, 'ComposedNode.ayns.on_merge_impl', "                removed = set()\n", "                removed = set()  # paths pruned below\n"), neutral=True),
    ]
