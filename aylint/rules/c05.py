"""C05 - merging is local."""
from ..mutate import Mutant, in_func
from ..report import AnalysisError
from . import mergerules as mr
from . import unitrules
from . import mergetrace as mt
from . import pathrules as pr

from .common import Guard  # noqa: E402

PROP = 'C05'
DECIDED = [
    'R1c: each pruning predicate compares the entry it decides with the node found by one lookup of that entry\'s own path in the opposite tree (no cached / re-descended counterpart).',
    'R1: over every on_merge_impl / on_premerge_impl in the package, the absolute path threaded through the recursion is used for lookups only on the merge root; lookups inside the nodes being merged use paths relative to them (path-base typing); removed-set and new-path walk share one base.',
    'R2: the recursion passes path + [key] (not path, not [key]) and the loop key to the child merge.',
    'R4: no build step (hook, hook wrapper, new-path check) compares the length of the absolute path with a bound other than 0.',
    'R3: every node method that hands its own (path, operand) pair on to the next layer (super(), a sub-build, the *_impl of the same step) hands it on in the same order.',
]
UNDECIDED = ['sibling independence and wrapping invariance as data (a relational statement over pairs of runs).']


HOOKS = ('on_preprocess', 'on_premerge', 'on_merge', 'on_evaluate', 'on_preprocess_impl', 'on_premerge_impl', 'on_merge_impl', 'on_evaluate_impl', '_require_all_new', 'merge', 'premerge', 'preprocess')


def r4(repo, run):
    """the absolute path handed through the build steps is never measured against a bound: a comparison of len(<the path>) with
    anything but 0 makes what a node does depend on how deep the document is nested (the wrapper installed around every step
    included: it picks the path out of its positional arguments)"""
    import ast
    from ..srcmodel import unparse
    n = 0
    bad = []
    seen = set()
    for fi in repo.all_functions():
        ps = fi.params()
        names = set()
        if fi.name in HOOKS and fi.cls is not None and len(ps) >= 2:
            names.add(ps[1])
        for nd in ast.walk(fi.node):
            # the hook wrapper: path = args[1] if len(args) > 1 else kwargs['path']
            if isinstance(nd, ast.Assign) and len(nd.targets) == 1 and isinstance(nd.targets[0], ast.Name) and "kwargs['path']" in unparse(nd.value) and 'args[1]' in unparse(nd.value):
                names.add(nd.targets[0].id)
        if not names:
            continue
        n += 1
        lens = {}
        for nd in ast.walk(fi.node):
            if isinstance(nd, ast.Assign) and len(nd.targets) == 1 and isinstance(nd.targets[0], ast.Name) and isinstance(nd.value, ast.Call) and unparse(nd.value.func) == 'len' \
                    and len(nd.value.args) == 1 and isinstance(nd.value.args[0], ast.Name) and nd.value.args[0].id in names:
                lens[nd.targets[0].id] = nd.value.args[0].id

        def is_len(x):
            return (isinstance(x, ast.Call) and unparse(x.func) == 'len' and len(x.args) == 1 and isinstance(x.args[0], ast.Name) and x.args[0].id in names) or (isinstance(x, ast.Name) and x.id in lens)
        for nd in ast.walk(fi.node):
            if isinstance(nd, ast.Compare):
                sides = [nd.left] + list(nd.comparators)
                if any(is_len(x) for x in sides) and not all(is_len(x) or (isinstance(x, ast.Constant) and x.value == 0) for x in sides) and id(nd) not in seen:
                    seen.add(id(nd))
                    bad.append((fi, nd))
    if n < 8:
        raise AnalysisError('C05.R4: only %d build-step functions that receive the absolute path were found' % n)
    for fi, nd in bad:
        run.violation('C05.R4', fi, unparse(nd)[:80], 'the length of the absolute path is compared with a bound: the same documents behave differently when wrapped under more keys (a nesting limit, a depth-dependent fast path)', node=nd)
    if not bad:
        run.ok('C05.R4', repo.func('ComposedNode.ayns.on_merge_impl'), 'no build step measures the absolute path against a bound (%d functions)' % n)


def check(repo, run, tier):
    g = Guard()
    g(pr.typed_lookups, repo, run, 'C05.R1')
    g(pr.removed_set_bases, repo, run, 'C05.R1')
    g(mt.counterpart_lookup, repo, run, 'C05.R1c')
    g(pr.no_unpacked_list_paths, repo, run, 'C05.R1d')
    g(mr.key_loop_paths, repo, run, 'C05.R2')
    g(unitrules.delegation_argument_order, repo, run, 'C05.R3')
    g(r4, repo, run)
    g.done()


def mutants(repo):
    return [
        Mutant('nesting-limit-in-the-step-wrapper', lambda r: in_func(r, 'node.decorator_factory', "            with errors.rethrow_point(error_type, self, path, other):", "            if path is not None and len(path) > 64:\n                raise RecursionError('nested too deep')\n            with errors.rethrow_point(error_type, self, path, other):"), ['C05.R4']),
        Mutant('path-and-operand-swapped', lambda r: in_func(r, 'IncludeNode.ayns.on_preprocess_impl', "on_preprocess(path, builder)", "on_preprocess(builder, path)"), ['C05.R3']),
        Mutant('F5-reverted', lambda r: in_func(r, 'ComposedNode.ayns.on_merge_impl', "get_first_not_missing_node(path[_prefix_len:])", "get_first_not_missing_node(path)"), ['C05.R1']),
        Mutant('extend-looks-up-relative', lambda r: in_func(r, 'ExtendNode.ayns.on_premerge_impl', "node = into.ayns.get_node(path)", "node = into.ayns.get_node(path[len(path):])"), ['C05.R1']),
        Mutant('recursion-drops-prefix', lambda r: in_func(r, 'ComposedNode.ayns.on_merge_impl', "possibly_new_child = child.ayns.on_merge(path + [key], value)", "possibly_new_child = child.ayns.on_merge(NodePath([key]), value)"), ['C05.R2']),
        Mutant('neutral-comment', lambda r: in_func(r, 'ComposedNode.ayns.on_merge_impl', "                removed = set()\n", "                removed = set()  # paths pruned below\n"), neutral=True),
    ]
