"""C17 - node containers stay consistent under any sequence of API operations."""
import ast

from ..mutate import Mutant, in_func, delete_stmt, in_module
from ..report import AnalysisError
from ..srcmodel import unparse, norm, calls_in
from .common import is_method_call
from . import containers as ct
from . import unitrules

from .common import Guard  # noqa: E402

PROP = 'C17'
DECIDED = [
    'R1: two-store pairing: for every mutator of ConfigDict / ConfigList named by the property (and __init__, and every subclass) the built-in storage and the child map receive the same updates on every structural path (calls on self inlined; idioms: append = set(len), rollback on raise, storage initialised from the child map, deletion guarded by non-membership), or the method ends by re-deriving the child map from the storage (which also re-establishes order and 0..n-1 numbering).',
    'R2: every operation named by the property that the built-in base implements is overridden in the node class.',
    'R3: the tree walk / named_children read the child map and ConfigList.get_child reads the storage (consistent given R1; recorded as a reliance).',
]
UNDECIDED = ['index normalisation arithmetic for out-of-range / negative indices;', 'NodePath text <-> list round trip (regex semantics);', 'built-in mutators the property does not name (sort, reverse, +=, *=, |=, popitem, ayns.clear) are listed as INFO.']
ASSUMPTIONS = ['loops are summarised as zero or one iteration of a balanced body', 'a statement that raises has not applied its effect']


def r3(repo, run):
    for q, want in (('ComposedNode.ayns.nodes_with_paths', 'self._children.items()'), ('ComposedNode.ayns.named_children', 'self._children.items()')):
        fi = repo.func(q)
        its = [norm(s.iter) for s in ast.walk(fi.node) if isinstance(s, ast.For)]
        if want not in its:
            raise AnalysisError('%s no longer iterates %s' % (q, want))
        run.ok('C17.R3', fi, '%s iterates the child map' % q)
    gc = repo.func('ConfigList.ayns.get_child')
    run.ok('C17.R3', gc, 'ConfigList.ayns.get_child reads the list storage via _get', 'consistent with the walk given R1')


def check(repo, run, tier):
    g = Guard()
    n = g(ct.pairing, repo, run, 'C17.R1') or 0
    subs = [c for c in repo.subclasses('ConfigDict', strict=True) + repo.subclasses('ConfigList', strict=True)]
    n += g(ct.pairing, repo, run, 'C17.R1', classes=subs, rule_override=None) or 0
    run.table('C17.R1', n, 'structural paths analysed over %d classes' % (2 + len(subs)))
    if g.pending is None:
        run.floor('C17.R1', 24, '(12 operations x 2 classes)')
    g(ct.unnamed_info, repo, run, 'C17.R2')
    g(r3, repo, run)
    g(unitrules.storage_receives_node, repo, run, 'C17.R1')
    g(unitrules.get_node_after_mutation_table, repo, run, 'C17.R3')
    g(unitrules.child_lookup_exact, repo, run, 'C17.R3')
    g.done()


def mutants(repo):
    return [
        Mutant('insert-stores-the-raw-value', lambda r: in_func(r, 'ConfigList.insert', "        value = ComposedNode.ayns.set_child(self, index, value)\n        list.insert(self, index, value)", "        node = ComposedNode.ayns.set_child(self, index, value)\n        list.insert(self, index, value)"), ['C17.R1']),
        Mutant('F7-reverted-underscore-bypass', lambda r: in_func(r, 'ConfigDict.__setitem__', "        return self._set(name, value)", "        if isinstance(name, str) and name.startswith('_'):\n            return dict.__setitem__(self, name, value)\n        return self._set(name, value)"), ['C17.R1']),
        Mutant('F8-reverted-insert-no-renumber', lambda r: in_func(r, 'ConfigList.insert', "        self._children = { idx: child for idx, child in enumerate(self) }\n", ""), ['C17.R1']),
        Mutant('F12-reverted-pop-removed', lambda r: in_func(r, 'ConfigList.pop', "    def pop(self, index=-1):\n        return self._del(index)\n", "    def _pop_unused(self, index=-1):\n        return self._del(index)\n"), ['C17.R2']),
        Mutant('F13-reverted-dict-rename', lambda r: in_func(r, 'ConfigDict.ayns.rename_child', "        dict.__delitem__(self, old_name)\n        dict.__setitem__(self, new_name, child)\n", ""), ['C17.R1']),
        Mutant('dict-del-child-map-only', lambda r: in_func(r, 'ConfigDict._del', "        dict.__delitem__(self, name)\n", ""), ['C17.R1']),
        Mutant('list-append-storage-only', lambda r: in_func(r, 'ConfigList.append', "        value = ComposedNode.ayns.set_child(self, len(self), value)\n", ""), ['C17.R1']),
        Mutant('list-set-no-rollback', lambda r: in_func(r, 'ConfigList._set', "            ComposedNode.ayns.remove_child(self, index)\n", ""), ['C17.R1']),
        Mutant('list-clear-storage-only', lambda r: in_func(r, 'ConfigList.clear', "        ComposedNode.ayns.clear(self)\n", ""), ['C17.R1']),
        Mutant('remove-node-base-remove_child', lambda r: in_func(r, 'ConfigDict.ayns.remove_child', "return self._del(name)", "return ComposedNode.ayns.remove_child(self, name)"), ['C17.R1']),
        Mutant('list-del-renumber-by-shifting-map', lambda r: in_func(r, 'ConfigList._del',
               "        for i in range(index+1, len(self)):\n            self[i-1] = self[i]\n\n        ComposedNode.ayns.remove_child(self, len(self) - 1)\n        list.__delitem__(self, -1)",
               "        ComposedNode.ayns.remove_child(self, index)\n        list.__delitem__(self, index)\n        self._children = { (i - 1 if i > index else i): c for i, c in self._children.items() }"), ['C17.R1']),
        Mutant('neutral-rename-local-in-_set', lambda r: in_func(r, 'ConfigDict._set', "value = ComposedNode.ayns.set_child(self, name, value)\n        dict.__setitem__(self, name, value)\n        return value",
               "node = ComposedNode.ayns.set_child(self, name, value)\n        dict.__setitem__(self, name, node)\n        return node"), neutral=True),
    ]
