"""The reader's tag table, extracted from awesomeyaml/yaml.py: add_constructor / add_multi_constructor
registrations resolved to their constructor functions and the `_make_node` call each one makes."""
import ast

from ..report import AnalysisError
from ..srcmodel import unparse, fold_const, calls_in


class TagEntry:
    def __init__(self, tag, multi, fi, reg_node):
        self.tag = tag
        self.multi = multi
        self.fi = fi
        self.reg = reg_node
        self.make = None          # the _make_node Call
        self.kwargs = None        # folded literal part of kwargs= ({} when absent)
        self.kwargs_dynamic = []  # names spread into kwargs (e.g. **kwargs from _decode_metadata)
        self.node_type = None     # text of node_type= (None = default ConfigNode)
        self.data_arg_name = None
        self.dict_is_data = True
        self.parse_scalars = True

    def __repr__(self):
        return '<Tag %s -> %s>' % (self.tag, self.fi.qualname if self.fi else None)


def constructors(repo):
    m = repo.module('yaml')
    out = {}
    for s in m.tree.body:
        if not (isinstance(s, ast.Expr) and isinstance(s.value, ast.Call)):
            continue
        c = s.value
        fn = unparse(c.func)
        if fn not in ('add_constructor', 'add_multi_constructor') or len(c.args) != 2:
            continue
        tag = c.args[0].value if isinstance(c.args[0], ast.Constant) else None
        if tag is None:
            raise AnalysisError('non-literal tag in %s' % unparse(c))
        target = c.args[1]
        fi = m.functions.get(target.id) if isinstance(target, ast.Name) else None
        if fi is None:
            raise AnalysisError('constructor %s of tag %s is not a module function' % (unparse(target), tag))
        e = TagEntry(tag, fn == 'add_multi_constructor', fi, c)
        _analyse(repo, e)
        out[tag] = e
    if len(out) < 30:
        raise AnalysisError('tag table: only %d registrations found (expected >= 30)' % len(out))
    return out


def _analyse(repo, e):
    makes = [c for c in calls_in(e.fi.node, nested=False) if unparse(c.func) in ('_make_node', 'make_node')]
    if len(makes) != 1:
        return
    mk = makes[0]
    e.make = mk
    e.kwargs = {}
    for k in mk.keywords:
        if k.arg == 'kwargs':
            v = k.value
            if isinstance(v, ast.Dict):
                for kk, vv in zip(v.keys, v.values):
                    if kk is None:
                        e.kwargs_dynamic.append(unparse(vv))
                        continue
                    ok, val = fold_const(repo, vv)
                    key = kk.value if isinstance(kk, ast.Constant) else unparse(kk)
                    e.kwargs[key] = val if ok else ('<expr>', unparse(vv))
            else:
                e.kwargs_dynamic.append(unparse(v))
        elif k.arg == 'node_type':
            e.node_type = unparse(k.value)
        elif k.arg == 'data_arg_name':
            e.data_arg_name = k.value.value if isinstance(k.value, ast.Constant) else unparse(k.value)
        elif k.arg == 'dict_is_data':
            e.dict_is_data = k.value.value if isinstance(k.value, ast.Constant) else None
        elif k.arg == 'parse_scalars':
            e.parse_scalars = k.value.value if isinstance(k.value, ast.Constant) else None


FLAG_TAGS = {
    '!del': {'delete': True},
    '!merge': {'delete': False},
    '!weak': {'priority': -1},
    '!force': {'priority': 1},
    '!new': {'allow_new': True},
    '!notnew': {'allow_new': False},
    '!unsafe': {'safe': False},
}


def check_flag_tags(repo, run, rule, tags=None):
    """C01.R2: merge-control tags are pure flag setters with the documented flag"""
    table = constructors(repo)
    for tag, expected in FLAG_TAGS.items():
        if tags is not None and tag not in tags:
            continue
        e = table.get(tag)
        if e is None:
            run.violation(rule, ('awesomeyaml/yaml.py', 0, '<module>'), 'add_constructor(%r, ...)' % tag, 'merge-control tag %s has no constructor' % tag)
            continue
        if e.make is None:
            raise AnalysisError('constructor of %s does not make exactly one _make_node call' % tag)
        probs = []
        if e.kwargs != expected or e.kwargs_dynamic:
            probs.append('sets %s%s (documented: %s)' % (e.kwargs, (' + ' + ','.join(e.kwargs_dynamic)) if e.kwargs_dynamic else '', expected))
        if e.node_type is not None:
            probs.append('builds %s instead of the deduced plain node type' % e.node_type)
        if e.data_arg_name is not None or e.dict_is_data is not True or e.parse_scalars is not True:
            probs.append('changes data handling (data_arg_name=%s dict_is_data=%s parse_scalars=%s)' % (e.data_arg_name, e.dict_is_data, e.parse_scalars))
        if e.multi:
            probs.append('registered as a prefix (multi) constructor')
        if probs:
            run.violation(rule, e.fi, '%s -> %s' % (tag, unparse(e.make)), '; '.join(probs), node=e.make)
        else:
            run.ok(rule, (e.fi.file, e.make.lineno, e.fi.qualname), '%s -> _make_node(kwargs=%s)' % (tag, e.kwargs), 'pure flag setter')
    md = table.get('!metadata:')
    if tags is None or '!metadata:' in tags:
        if md is None or not md.multi or md.node_type is not None or md.data_arg_name is not None or md.parse_scalars is not True:
            run.violation(rule, md.fi if md else ('awesomeyaml/yaml.py', 0, '<module>'), '!metadata: constructor', 'metadata tag is not a plain-node prefix constructor')
        else:
            run.ok(rule, (md.fi.file, md.make.lineno, md.fi.qualname), '!metadata: -> _make_node(kwargs=_decode_metadata(suffix))', 'plain node type, default data handling')
    return table
