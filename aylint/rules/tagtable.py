"""The reader's tag table, extracted from awesomeyaml/yaml.py: add_constructor / add_multi_constructor
registrations resolved to their constructor functions and the `_make_node` call each one makes."""
import ast

from ..report import AnalysisError
from ..srcmodel import unparse, fold_const, calls_in


class TagEntry:
    def __init__(self, tag, multi, fi, reg_node):
        self.tag = tag
        self.multi = multi
        self.fi = fi
        self.reg = reg_node
        self.make = None          # the _make_node Call
        self.kwargs = None        # folded literal part of kwargs= ({} when absent)
        self.kwargs_dynamic = []  # names spread into kwargs (e.g. **kwargs from _decode_metadata)
        self.node_type = None     # text of node_type= (None = default ConfigNode)
        self.data_arg_name = None
        self.dict_is_data = True
        self.parse_scalars = True
        self.make_event = None
        self.kwargs_val = {}

    def __repr__(self):
        return '<Tag %s -> %s>' % (self.tag, self.fi.qualname if self.fi else None)


def constructors(repo):
    m = repo.module('yaml')
    out = {}
    for s in m.tree.body:
        if not (isinstance(s, ast.Expr) and isinstance(s.value, ast.Call)):
            continue
        c = s.value
        fn = unparse(c.func)
        if fn not in ('add_constructor', 'add_multi_constructor') or len(c.args) != 2:
            continue
        tag = c.args[0].value if isinstance(c.args[0], ast.Constant) else None
        if tag is None:
            raise AnalysisError('non-literal tag in %s' % unparse(c))
        target = c.args[1]
        fi = m.functions.get(target.id) if isinstance(target, ast.Name) else None
        if fi is None:
            raise AnalysisError('constructor %s of tag %s is not a module function' % (unparse(target), tag))
        e = TagEntry(tag, fn == 'add_multi_constructor', fi, c)
        _analyse(repo, e)
        out[tag] = e
    if len(out) < 30:
        raise AnalysisError('tag table: only %d registrations found (expected >= 30)' % len(out))
    return out


def _analyse(repo, e):
    """the _make_node call of a constructor, read from the traces of the constructor function (locals substituted,
    private helpers inlined): literal kwargs are folded, everything else is kept as ('<expr>', canonical text)"""
    from . import tr
    try:
        paths = tr.paths_of(repo, e.fi, no_inline={'_make_node', 'make_node', '_decode_metadata'}, follow_exceptions=False)
    except AnalysisError:
        return
    makes = []
    for p in paths:
        for ev in p.events:
            if ev.kind == 'call' and ev.callee in ('_make_node', 'make_node'):
                makes.append(ev)
    sites = {id(m.node) for m in makes}
    if len(sites) != 1:
        return
    variants = set()
    for mk in makes:
        variants.add((mk.kw['kwargs'].text if 'kwargs' in mk.kw else None,) + tuple((k, mk.kw[k].text) for k in sorted(mk.kw) if k != 'kwargs'))
    if len(variants) != 1:
        return
    mk = makes[0]
    e.make = mk.node
    e.make_event = mk
    e.kwargs = {}
    e.kwargs_val = {}
    for k, v in mk.kw.items():
        if k == 'kwargs':
            d = v.ast
            if isinstance(d, ast.Dict):
                for kk, vv in zip(d.keys, d.values):
                    if kk is None:
                        e.kwargs_dynamic.append(unparse(vv))
                        continue
                    ok, val = fold_const(repo, vv)
                    key = kk.value if isinstance(kk, ast.Constant) else unparse(kk)
                    e.kwargs[key] = val if ok else ('<expr>', unparse(vv))
                    e.kwargs_val[key] = vv
            elif not (isinstance(d, ast.Constant) and d.value is None):
                e.kwargs_dynamic.append(v.text)
        elif k == 'node_type':
            e.node_type = v.text
        elif k == 'data_arg_name':
            e.data_arg_name = v.const if isinstance(v.ast, ast.Constant) else v.text
        elif k == 'dict_is_data':
            e.dict_is_data = v.const if isinstance(v.ast, ast.Constant) else None
        elif k == 'parse_scalars':
            e.parse_scalars = v.const if isinstance(v.ast, ast.Constant) else None
    if len(mk.node.args) > 2:
        raise AnalysisError('constructor of %s passes more than (loader, node) positionally to _make_node' % e.tag)


FLAG_TAGS = {
    '!del': {'delete': True},
    '!merge': {'delete': False},
    '!weak': {'priority': -1},
    '!force': {'priority': 1},
    '!new': {'allow_new': True},
    '!notnew': {'allow_new': False},
    '!unsafe': {'safe': False},
}


def check_flag_tags(repo, run, rule, tags=None):
    """C01.R2: merge-control tags are pure flag setters with the documented flag"""
    table = constructors(repo)
    for tag, expected in FLAG_TAGS.items():
        if tags is not None and tag not in tags:
            continue
        e = table.get(tag)
        if e is None:
            run.violation(rule, ('awesomeyaml/yaml.py', 0, '<module>'), 'add_constructor(%r, ...)' % tag, 'merge-control tag %s has no constructor' % tag)
            continue
        if e.make is None:
            raise AnalysisError('constructor of %s does not make exactly one _make_node call' % tag)
        probs = []
        if e.kwargs != expected or e.kwargs_dynamic:
            probs.append('sets %s%s (documented: %s)' % (e.kwargs, (' + ' + ','.join(e.kwargs_dynamic)) if e.kwargs_dynamic else '', expected))
        if e.node_type is not None:
            probs.append('builds %s instead of the deduced plain node type' % e.node_type)
        if e.data_arg_name is not None or e.dict_is_data is not True or e.parse_scalars is not True:
            probs.append('changes data handling (data_arg_name=%s dict_is_data=%s parse_scalars=%s)' % (e.data_arg_name, e.dict_is_data, e.parse_scalars))
        if e.multi:
            probs.append('registered as a prefix (multi) constructor')
        if probs:
            run.violation(rule, e.fi, '%s -> %s' % (tag, unparse(e.make)), '; '.join(probs), node=e.make)
        else:
            run.ok(rule, (e.fi.file, e.make.lineno, e.fi.qualname), '%s -> _make_node(kwargs=%s)' % (tag, e.kwargs), 'pure flag setter')
    md = table.get('!metadata:')
    if tags is None or '!metadata:' in tags:
        if md is None or not md.multi or md.node_type is not None or md.data_arg_name is not None or md.parse_scalars is not True or not any('_decode_metadata(' in x for x in (md.kwargs_dynamic or [])):
            run.violation(rule, md.fi if md else ('awesomeyaml/yaml.py', 0, '<module>'), '!metadata: constructor', 'metadata tag is not a plain-node prefix constructor')
        else:
            run.ok(rule, (md.fi.file, md.make.lineno, md.fi.qualname), '!metadata: -> _make_node(kwargs=_decode_metadata(suffix))', 'plain node type, default data handling')
    return table
