#!/venv/bin/python
"""Confirm a behaviour-preserving refactoring patch myself (pytest result identical to the clean tree, all 174 yaml
fixtures pass) and file it under /verif/neutral/<id>/ (patch.diff, notes.txt, meta.json).  These patches are the
regression corpus for "never raise an alarm on code where the property holds"."""
import json, os, re, shutil, subprocess, sys
src, nid = sys.argv[1], sys.argv[2]
wt = '/tmp/sv/n-' + nid
os.makedirs('/tmp/sv', exist_ok=True)
subprocess.run(['git', '-C', '/repo', 'worktree', 'remove', '--force', wt], capture_output=True)
subprocess.run(['git', '-C', '/repo', 'worktree', 'prune'])
subprocess.run(['git', '-C', '/repo', 'worktree', 'add', '-q', '--detach', wt, 'HEAD'], check=True)
env = dict(os.environ, PYTHONPATH=wt, PYTHONDONTWRITEBYTECODE='1')
res = {'id': nid}
try:
    p = subprocess.run(['git', '-C', wt, 'apply', os.path.join(src, 'patch.diff')], capture_output=True, text=True)
    res['apply_rc'] = p.returncode
    if p.returncode == 0:
        q = subprocess.run(['/venv/bin/python', '-m', 'pytest', '-q', '-p', 'no:cacheprovider', '--timeout=900', '--continue-on-collection-errors'], cwd=wt, env=env, capture_output=True, text=True)
        m = re.search(r'(\d+) passed', q.stdout)
        res['passed'] = int(m.group(1)) if m else -1
        res['one_error'] = '1 error' in q.stdout
        f = subprocess.run(['/venv/bin/python', os.path.join(os.path.dirname(os.path.abspath(__file__)), 'run_fixtures.py'), wt, '/tmp/sv/fx-%s.json' % nid], env=env, capture_output=True, text=True)
        res['fixtures'] = f.stdout.strip().split('\n')[0]
        res['confirmed'] = res['passed'] == 262 and res['one_error'] and res['fixtures'].startswith('174 pass of 174')
        if res['confirmed']:
            dst = '/verif/neutral/' + nid
            os.makedirs(dst, exist_ok=True)
            if os.path.abspath(src) != os.path.abspath(dst):
                shutil.copy(os.path.join(src, 'patch.diff'), dst)
                if os.path.exists(os.path.join(src, 'notes.txt')):
                    shutil.copy(os.path.join(src, 'notes.txt'), dst)
            json.dump({'id': nid, 'kind': 'behaviour-preserving refactoring (must not raise an alarm)', 'what_i_ran': ['git apply on a scratch worktree of /repo HEAD', 'pytest baseline command -> 262 passed + the known test_f error (same as clean tree)', 'tools/run_fixtures.py -> 174 pass of 174'],
                       'repo_head': subprocess.run(['git', '-C', '/repo', 'rev-parse', 'HEAD'], capture_output=True, text=True).stdout.strip()}, open(os.path.join(dst, 'meta.json'), 'w'), indent=1)
finally:
    subprocess.run(['git', '-C', '/repo', 'worktree', 'remove', '--force', wt], capture_output=True)
print(json.dumps(res))
