#!/venv/bin/python
"""run all checks against /repo + an arbitrary patch file (plain copy, nothing imported); prints per-property exits"""
import os, subprocess, sys, tempfile, json
VERIF = os.path.dirname(os.path.dirname(os.path.abspath(__file__)))
patch = os.path.abspath(sys.argv[1])
props = sys.argv[2:] or sorted(f[:-3].upper() for f in os.listdir(os.path.join(VERIF, 'aylint', 'rules')) if f.startswith('c') and f[1:3].isdigit())
wt = tempfile.mkdtemp(prefix='trypatch')
subprocess.run(['cp', '-r', '/repo/awesomeyaml', wt + '/awesomeyaml'], check=True)
p = subprocess.run(['git', 'apply', '--include=awesomeyaml/*', patch], cwd=wt, capture_output=True, text=True)
if p.returncode:
    print('APPLY FAILED', p.stderr[-300:]); sys.exit(3)
ev = tempfile.mkdtemp(prefix='ayev')
env = dict(os.environ, AYLINT_EVIDENCE_DIR=ev, AYLINT_REPLAY_DIR=ev)
res = {}
import concurrent.futures as cf
def one(pr):
    q = subprocess.run(['/venv/bin/python', '-m', 'aylint', 'check', pr, '--repo', wt, '--no-selftest'], cwd=VERIF, env=env, capture_output=True, text=True)
    return pr, q.returncode, q.stdout
with cf.ThreadPoolExecutor(8) as ex:
    for pr, rc, out in ex.map(one, props):
        if rc:
            lines = [l for l in out.split('\n') if l.startswith('  rule ') or 'ANALYSIS-ERROR' in l or l.startswith('  construct')]
            res[pr] = (rc, lines[:6])
subprocess.run(['rm', '-rf', wt, ev])
print(json.dumps(res, indent=1) if res else 'all checks exit 0')
