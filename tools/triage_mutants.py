#!/venv/bin/python
"""Development aid (NOT a check, not registered in MANIFEST): measures the static rules against *simple* regressions.

Every first-order mutant (aylint.automutate operators) of every function of the package is
  1. run through the pinned test command (junit) - mutants that fail one of the baseline's stable tests are dropped: they are
     not "changes that still pass the existing tests";
  2. run through all 20 static checks (in memory, quick tier, no self-test): killed by which rules / no verdict / survived;
  3. survivors of 2 are run through a behaviour battery (the 174 YAML fixtures and the demo.py of every confirmed seeded
     change, which exit 0 on a tree where their property holds): a survivor that changes behaviour there is a candidate for
     a rule that is missing or too weak, to be triaged by hand.
Results: /tmp/triage/<shard>.jsonl (resumable).  Usage: triage_mutants.py enumerate | run <k> <n> | report
"""
import ast, json, os, subprocess, sys, tempfile, shutil, hashlib, time
VERIF = os.path.dirname(os.path.dirname(os.path.abspath(__file__)))
sys.path.insert(0, VERIF)
OUT = '/tmp/triage'
os.makedirs(OUT, exist_ok=True)


def enumerate_jobs():
    from aylint.srcmodel import Repo
    from aylint import automutate
    repo = Repo.load('/repo')
    jobs = []
    for fi in repo.all_functions(include_nested=False):
        if fi.qualname not in repo.functions or repo.functions[fi.qualname] is not fi:
            continue
        for op, idx, desc in automutate._sites(fi.node):
            jobs.append((fi.qualname, op, idx, desc))
    return repo, jobs


def stable_tests():
    b = json.load(open('/root/.vp/BASELINE.json'))
    return set(b['stable_pass']) - {'::'}


def junit_pass(path):
    import xml.etree.ElementTree as ET
    ok = set()
    try:
        t = ET.parse(path)
    except Exception:
        return ok
    for c in t.iter('testcase'):
        if not [x for x in c if x.tag in ('failure', 'error', 'skipped')]:
            ok.add('%s::%s' % (c.get('classname'), c.get('name')))
    return ok


def materialise(repo, qual, op, idx):
    from aylint import automutate
    fi = repo.functions[qual]
    new_fn = automutate._apply(fi.node, op, idx)
    text = automutate._splice(fi.module, fi.node, new_fn)
    ast.parse(text)
    return fi.module.relpath, text


def run_shard(k, n):
    from aylint import automutate
    from aylint.report import Run, AnalysisError
    from aylint.rules import common
    import importlib
    repo, jobs = enumerate_jobs()
    stable = stable_tests()
    mods = [importlib.import_module('aylint.rules.c%02d' % i) for i in range(1, 21)]
    base = {}
    for m in mods:
        r = Run(m.PROP, 'quick', repo.root, quiet=True)
        try:
            common.reset_caches()
            m.check(repo, r, 'quick')
        except AnalysisError:
            pass
        base[m.PROP] = {v['key'] for v in r.violations}
    done = set()
    outp = os.path.join(OUT, 'shard_%d_%d.jsonl' % (k, n))
    for f in os.listdir(OUT):
        if f.endswith('.jsonl'):
            for l in open(os.path.join(OUT, f)):
                try:
                    done.add(tuple(json.loads(l)['job'][:3]))
                except Exception:
                    pass
    demos = sorted(d for d in os.listdir(os.path.join(VERIF, 'seeded')) if os.path.exists(os.path.join(VERIF, 'seeded', d, 'demo.py')))
    demo_files = {}
    for d in demos:
        try:
            txt = open(os.path.join(VERIF, 'seeded', d, 'patch.diff'), errors='replace').read()
        except OSError:
            txt = ''
        demo_files[d] = {l.split(' b/')[-1].strip() for l in txt.split('\n') if l.startswith('diff --git')}
    fast = os.environ.get('TRIAGE_FAST') == '1'
    with open(outp, 'a') as out:
        for j, job in enumerate(jobs):
            if j % n != k or tuple(job[:3]) in done:
                continue
            qual, op, idx, desc = job
            rec = {'job': [qual, op, idx, desc]}
            try:
                rel, text = materialise(repo, qual, op, idx)
            except Exception as e:
                rec['invalid'] = str(e)[:80]
                out.write(json.dumps(rec) + '\n'); out.flush()
                continue
            wt = tempfile.mkdtemp(prefix='tri')
            try:
                shutil.copytree('/repo/awesomeyaml', wt + '/awesomeyaml')
                shutil.copytree('/repo/tests', wt + '/tests')
                for f in ('setup.py', 'setup.cfg', 'pytest.ini', 'tox.ini', 'pyproject.toml', 'conftest.py'):
                    if os.path.exists('/repo/' + f):
                        shutil.copy('/repo/' + f, wt + '/' + f)
                crlf = b'\r\n' in open('/repo/' + rel, 'rb').read()
                with open(wt + '/' + rel, 'w', newline='') as f:
                    f.write(text.replace('\n', '\r\n') if crlf else text)
                env = dict(os.environ, PYTHONPATH=wt)
                jx = wt + '/junit.xml'
                try:
                    subprocess.run(['/venv/bin/python', '-m', 'pytest', '-q', '-p', 'no:cacheprovider', '--timeout=120', '--continue-on-collection-errors', '-x' if False else '-q', '--junitxml=' + jx],
                                   cwd=wt, env=env, capture_output=True, timeout=300)
                except subprocess.TimeoutExpired:
                    rec['tests'] = 'timeout'
                    out.write(json.dumps(rec) + '\n'); out.flush()
                    continue
                missing = sorted(stable - junit_pass(jx))
                rec['tests_failed'] = len(missing)
                if missing:
                    rec['tests'] = 'fail'
                    out.write(json.dumps(rec) + '\n'); out.flush()
                    continue
                rec['tests'] = 'pass'
                # static checks
                r2 = repo.with_overrides({rel: text})
                killed, nov = {}, {}
                for m in mods:
                    sub = Run(m.PROP, 'quick', repo.root, quiet=True)
                    try:
                        common.reset_caches()
                        m.check(r2, sub, 'quick')
                    except AnalysisError as e:
                        nov[m.PROP] = str(e)[:100]
                    except Exception as e:  # noqa
                        nov[m.PROP] = 'internal %s: %s' % (type(e).__name__, str(e)[:80])
                    new = sorted({v['rule'] for v in sub.violations if v['key'] not in base[m.PROP]})
                    if new:
                        killed[m.PROP] = new
                common.reset_caches()
                rec['killed'] = killed
                rec['no_verdict'] = nov
                # behaviour battery
                fx = subprocess.run(['/venv/bin/python', os.path.join(VERIF, 'tools', 'run_fixtures.py'), wt, wt + '/fx.json'], capture_output=True, text=True, timeout=600)
                rec['fixtures'] = (fx.stdout.strip().split('\n') or [''])[-1][:60]
                bad = []
                pick = [] if os.environ.get('TRIAGE_FAST') == '2' else [d for d in demos if not fast or rel in demo_files.get(d, ())]      # fast mode: only the demos whose seeded change touches the same file
                for d in (pick if not killed else []):      # the demos are only needed to find what the rules miss
                    try:
                        q = subprocess.run(['/venv/bin/python', os.path.join(VERIF, 'seeded', d, 'demo.py')], env=env, cwd=wt, capture_output=True, timeout=60)
                        if q.returncode != 0:
                            bad.append(d)
                    except subprocess.TimeoutExpired:
                        bad.append(d + ':timeout')
                rec['demos_failed'] = bad
            finally:
                shutil.rmtree(wt, ignore_errors=True)
            out.write(json.dumps(rec) + '\n'); out.flush()


def report():
    recs = []
    for f in sorted(os.listdir(OUT)):
        if f.endswith('.jsonl'):
            for l in open(os.path.join(OUT, f)):
                try:
                    recs.append(json.loads(l))
                except Exception:
                    pass
    n = len(recs)
    inv = [r for r in recs if 'invalid' in r]
    tf = [r for r in recs if r.get('tests') in ('fail', 'timeout')]
    tp = [r for r in recs if r.get('tests') == 'pass']
    killed = [r for r in tp if r.get('killed')]
    changed = [r for r in tp if r.get('demos_failed') or str(r.get('fixtures', '')) != 'fail: []']
    killed_changed = [r for r in changed if r.get('killed')]
    nov_changed = [r for r in changed if not r.get('killed') and r.get('no_verdict')]
    missed = [r for r in changed if not r.get('killed') and not r.get('no_verdict')]
    fa = [r for r in killed if r not in changed]
    print('mutants %d: invalid %d, fail pinned tests %d, pass pinned tests %d' % (n, len(inv), len(tf), len(tp)))
    print('  of those passing the tests: behaviour battery differs for %d  (killed %d, no verdict %d, MISSED %d)' % (len(changed), len(killed_changed), len(nov_changed), len(missed)))
    print('  killed although the battery sees no difference: %d (to be triaged: equivalent-looking mutants the rules flag)' % len(fa))
    json.dump({'missed': missed, 'killed_unchanged': fa, 'nov_changed': nov_changed}, open(os.path.join(OUT, 'report.json'), 'w'), indent=1)


def recheck(which='missed'):
    """re-run the static checks (current rules) on the mutants the last report lists as missed / no-verdict"""
    from aylint.report import Run, AnalysisError
    from aylint.rules import common
    import importlib
    import multiprocessing
    repo, jobs = enumerate_jobs()
    d = json.load(open(os.path.join(OUT, 'report.json')))
    todo = d[which]
    global _RC
    mods = [importlib.import_module('aylint.rules.c%02d' % i) for i in range(1, 21)]
    basekeys = {}
    for m in mods:
        base = Run(m.PROP, 'quick', repo.root, quiet=True)
        try:
            common.reset_caches()
            m.check(repo, base, 'quick')
        except AnalysisError:
            pass
        basekeys[m.PROP] = {v['key'] for v in base.violations}
    _RC = (repo, basekeys)
    with multiprocessing.get_context('fork').Pool(12) as pool:
        res = pool.map(_recheck_one, [r['job'] for r in todo])
    still = 0
    for job, killed, nov in res:
        if killed:
            print('now-killed', job[0], job[1], job[3][:50], killed)
        else:
            still += 1
            print('STILL-' + ('NOVERDICT' if nov else 'MISSED'), job[0], job[1], job[3][:60], list(nov.items())[:1])
    print('%d of %d still not killed' % (still, len(res)))


def _recheck_one(job):
    from aylint.report import Run, AnalysisError
    from aylint.rules import common
    import importlib
    repo = _RC[0]
    mods = [importlib.import_module('aylint.rules.c%02d' % i) for i in range(1, 21)]
    qual, op, idx, desc = job
    try:
        rel, text = materialise(repo, qual, op, idx)
    except Exception as e:  # noqa  (the tree changed since the enumeration)
        return job, {}, {'stale': str(e)[:60]}
    r2 = repo.with_overrides({rel: text})
    killed, nov = {}, {}
    for m in mods:
        bk = _RC[1][m.PROP]
        sub = Run(m.PROP, 'quick', repo.root, quiet=True)
        try:
            common.reset_caches()
            m.check(r2, sub, 'quick')
        except AnalysisError as e:
            nov[m.PROP] = str(e)[:100]
        except Exception as e:  # noqa
            nov[m.PROP] = 'internal %s: %s' % (type(e).__name__, str(e)[:80])
        new = sorted({v['rule'] for v in sub.violations if v['key'] not in bk})
        if new:
            killed[m.PROP] = new
    return job, killed, nov


if __name__ == '__main__':
    if sys.argv[1] == 'enumerate':
        repo, jobs = enumerate_jobs()
        print(len(jobs))
    elif sys.argv[1] == 'run':
        run_shard(int(sys.argv[2]), int(sys.argv[3]))
    elif sys.argv[1] == 'report':
        report()
    elif sys.argv[1] == 'recheck':
        recheck(sys.argv[2] if len(sys.argv) > 2 else 'missed')
