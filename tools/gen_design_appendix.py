#!/venv/bin/python
"""Regenerates the generated parts of DESIGN.md section 10 (between the AUTOGEN markers):
 - the rule inventory per property as implemented (from the DECIDED lists of the rule modules and the evidence files)
 - the seeded-change catch matrix (from /verif/seeded/*/meta.json and the last tools/run_seeded.py result)"""
import importlib, json, os, re, sys
VERIF = os.path.dirname(os.path.dirname(os.path.abspath(__file__)))
sys.path.insert(0, VERIF)
out = []
out.append('#### 10.2 Rules as implemented (generated from the rule modules and the last quick run)\n')
out.append('| prop | rules (instances on the current tree) | self-test mutants | known / new |')
out.append('|---|---|---|---|')
for i in range(1, 21):
    pid = 'C%02d' % i
    ev = json.load(open(os.path.join(VERIF, 'evidence', pid + '.json')))
    cov = ev['coverage']
    rules = ', '.join('%s (%d)' % (k, v) for k, v in sorted(cov['per_rule_instances'].items()))
    st = cov['selftest']
    out.append('| %s | %s | %d/%d | %d / %d |' % (pid, rules, sum(1 for s in st if s['ok']), len(st), len(cov['known_findings']), len(cov['new_violations'])))
out.append('')
out.append('Decided clauses per property (the `DECIDED` list of each `aylint/rules/cNN.py`, copied into MANIFEST `level_claimed.text` and the evidence `explanation`):\n')
for i in range(1, 21):
    pid = 'C%02d' % i
    mod = importlib.import_module('aylint.rules.' + pid.lower())
    out.append('* **%s** - ' % pid + ' '.join(mod.DECIDED))
    out.append('  *Undecided:* ' + ' '.join(mod.UNDECIDED))
out.append('')
out.append('#### 10.5 Seeded changes and which checks catch them (generated)\n')
res = {}
p = '/tmp/sv/last_seeded_run.json'
if os.path.exists(p):
    res = json.load(open(p))
keep = os.path.join(VERIF, 'seeded', 'catch_matrix.json')
if os.path.exists(keep):
    old = json.load(open(keep))
    old.update(res)
    res = old
json.dump(res, open(keep, 'w'), indent=1, sort_keys=True)
out.append('| seed | breaks | what the change does | caught by (exit 1) | no verdict (exit 2) |')
out.append('|---|---|---|---|---|')
n = c = 0
for sid in sorted(os.listdir(os.path.join(VERIF, 'seeded'))):
    mp = os.path.join(VERIF, 'seeded', sid, 'meta.json')
    if not os.path.exists(mp):
        continue
    m = json.load(open(mp))
    r = res.get(sid, {})
    caught = ['%s (%s)' % (k, ', '.join(v[1])) for k, v in sorted(r.items()) if isinstance(v, list) and v[0] == 1]
    nov = [k for k, v in sorted(r.items()) if isinstance(v, list) and v[0] == 2]
    n += 1
    c += bool(caught)
    title = (m.get('title') or m.get('what_changed') or '')[:110].replace('|', '/').replace('\n', ' ')
    out.append('| %s | %s | %s | %s | %s |' % (sid, m.get('property', sid[:3]), title, '; '.join(caught) or '**missed**', ', '.join(nov)))
out.append('')
out.append('%d of %d confirmed seeded changes are reported with a VIOLATION line by at least one check.' % (c, n))
text = '\n'.join(out)
d = open(os.path.join(VERIF, 'DESIGN.md')).read()
a, b = '<!-- AUTOGEN-BEGIN -->', '<!-- AUTOGEN-END -->'
if a in d and b in d:
    d = d[:d.index(a) + len(a)] + '\n' + text + '\n' + d[d.index(b):]
    open(os.path.join(VERIF, 'DESIGN.md'), 'w').write(d)
    print('DESIGN.md section 10 regenerated: %d/%d seeds caught' % (c, n))
else:
    print(text)
