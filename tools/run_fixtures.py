# research helper: run each yaml fixture of a repo copy in its own subprocess, print pass/fail map
import sys, os, subprocess, json, concurrent.futures as cf
repo = sys.argv[1]
files = sorted(subprocess.check_output(['find', os.path.join(repo, 'tests/yaml_files'), '-name', '*_test.yaml']).decode().split())
runner = r'''
import sys, unittest
repo, f = sys.argv[1], sys.argv[2]
sys.path.insert(0, repo)
import tests.yaml_files_test as T
cls = T.YamlFileTest.make_test_case_type(test_file=f, class_arg='x')
r = unittest.TextTestRunner(stream=open('/dev/null','w')).run(unittest.defaultTestLoader.loadTestsFromTestCase(cls))
sys.exit(0 if r.wasSuccessful() else 1)
'''
def run(f):
    try:
        p = subprocess.run(['/venv/bin/python', '-c', runner, repo, f], cwd=repo, capture_output=True, timeout=20)
        return f, p.returncode
    except subprocess.TimeoutExpired:
        return f, 'timeout'
with cf.ThreadPoolExecutor(16) as ex:
    res = dict(ex.map(run, files))
out = {os.path.relpath(k, os.path.join(repo, 'tests/yaml_files')): v for k, v in res.items()}
json.dump(out, open(sys.argv[2], 'w'), indent=1)
print(sum(1 for v in out.values() if v == 0), 'pass of', len(out))
print('fail:', [k for k, v in out.items() if v != 0])
