#!/venv/bin/python
"""Confirm a candidate seeded change myself (brief: "Keep a change only after you have confirmed all of that
yourself in a scratch worktree") and file it under /verif/seeded/<prop>-<n>/.

usage: verify_seed.py <dir with patch.diff demo.py meta.json> <seed-id>
Creates a scratch worktree of /repo HEAD under /tmp/sv, checks: demo exits 0 on the clean tree; patch applies;
package imports; pytest gives the baseline result (100 passed + the known INTERNALERROR); demo exits non-zero
with the patch.  Removes the worktree afterwards.
"""
import json, os, re, shutil, subprocess, sys

src, sid = sys.argv[1], sys.argv[2]
keep = '--keep' in sys.argv
wt = '/tmp/sv/' + sid
os.makedirs('/tmp/sv', exist_ok=True)
subprocess.run(['git', '-C', '/repo', 'worktree', 'remove', '--force', wt], capture_output=True)
subprocess.run(['git', '-C', '/repo', 'worktree', 'add', '-q', '--detach', wt, 'HEAD'], check=True)
env = dict(os.environ, PYTHONPATH=wt, AY_TREE=wt, PYTHONDONTWRITEBYTECODE='1')
res = {'seed': sid, 'source_dir': src}
def run(cmd, **kw):
    return subprocess.run(cmd, cwd=wt, env=env, capture_output=True, text=True, timeout=300, **kw)
BASE = [t for t in json.load(open('/root/.vp/BASELINE.json'))['stable_pass'] if t != '::']
def tests():
    """(number passed, known error present) + res['baseline_missing'] = pinned baseline tests that do not pass"""
    p = run(['/venv/bin/python', '-m', 'pytest', '-q', '-rA', '-p', 'no:cacheprovider', '--timeout=900', '--continue-on-collection-errors'])
    m = re.search(r'(\d+) passed', p.stdout)
    passed = set()
    for l in p.stdout.split('\n'):
        if l.startswith('PASSED '):
            parts = l[7:].strip().split('::')
            passed.add('::'.join([parts[0].replace('/', '.')[:-3]] + parts[1:]) if len(parts) == 2 else parts[0].replace('/', '.')[:-3] + '.' + '::'.join(parts[1:]))
    res['baseline_missing'] = [t for t in BASE if t not in passed]
    return int(m.group(1)) if m else -1, ('1 error' in p.stdout)
try:
    demo = os.path.join(src, 'demo.py')
    p = run(['/venv/bin/python', demo])
    res['demo_clean_rc'] = p.returncode
    base_file = '/tmp/sv/clean_baseline.json'
    head = subprocess.run(['git', '-C', '/repo', 'rev-parse', 'HEAD'], capture_output=True, text=True).stdout.strip()
    try:
        base = json.load(open(base_file))
        assert base['head'] == head
    except Exception:
        n_, e_ = tests()
        base = {'head': head, 'passed': n_, 'known_error': e_}
        json.dump(base, open(base_file, 'w'))
    res['clean_tests_passed'] = base['passed']
    p = subprocess.run(['git', '-C', wt, 'apply', os.path.join(src, 'patch.diff')], capture_output=True, text=True)
    res['apply_rc'] = p.returncode
    res['apply_err'] = p.stderr[-300:]
    if p.returncode == 0:
        d = subprocess.run(['git', '-C', wt, 'diff', '--stat'], capture_output=True, text=True).stdout
        res['diffstat'] = d.strip().split('\n')
        p = run(['/venv/bin/python', '-c', 'import awesomeyaml, sys; print(awesomeyaml.__file__)'])
        res['imports'] = p.returncode == 0 and p.stdout.strip().startswith(wt)
        res['tests_passed'], res['tests_known_error'] = tests()
        p = run(['/venv/bin/python', demo])
        res['demo_patched_rc'] = p.returncode
        res['demo_patched_out'] = (p.stdout + p.stderr)[-400:]
    ok = (res.get('demo_clean_rc') == 0 and res.get('apply_rc') == 0 and res.get('imports') and
          not res.get('baseline_missing') and res.get('tests_known_error') and res.get('demo_patched_rc', 0) != 0)
    res['confirmed'] = bool(ok)
    if ok:
        dst = '/verif/seeded/' + sid
        os.makedirs(dst, exist_ok=True)
        if os.path.abspath(src) != os.path.abspath(dst):
            shutil.copy(os.path.join(src, 'patch.diff'), dst)
            shutil.copy(demo, dst)
        meta = json.load(open(os.path.join(src, 'meta.json')))
        meta['confirmed_by_me'] = {
            'what_i_ran': ['git worktree add /tmp/sv/%s HEAD' % sid, 'demo.py on clean tree -> rc 0', 'git apply patch.diff',
                           'pytest baseline command: all 101 pinned baseline tests pass (%d of the %d tests that run on the clean tree pass in total)' % (res['tests_passed'], res['clean_tests_passed']), 'demo.py on patched tree -> rc %d' % res['demo_patched_rc']],
            'repo_head': subprocess.run(['git', '-C', '/repo', 'rev-parse', 'HEAD'], capture_output=True, text=True).stdout.strip(),
            'diffstat': res.get('diffstat'),
            'tests_beyond_pinned_baseline': '%d passed with the change vs %d on the clean tree (tests outside the pinned 101 run only since fix F17)' % (res['tests_passed'], res['clean_tests_passed']),
        }
        json.dump(meta, open(os.path.join(dst, 'meta.json'), 'w'), indent=1)
finally:
    if not keep:
        subprocess.run(['git', '-C', '/repo', 'worktree', 'remove', '--force', wt], capture_output=True)
print(json.dumps(res))
