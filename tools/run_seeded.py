#!/venv/bin/python
"""Run the checks against every confirmed seeded change under /verif/seeded (each applied in its own scratch
worktree of /repo HEAD, removed afterwards; evidence of these runs goes to a temp dir, never to /verif/evidence).
usage: run_seeded.py [seed-id ...]   prints one line per seed: which property checks exit 1 (VIOLATION) / 2 (error)"""
import json, os, subprocess, sys, tempfile, concurrent.futures as cf
VERIF = os.path.dirname(os.path.dirname(os.path.abspath(__file__)))
sys.path.insert(0, VERIF)
seeds = [a for a in sys.argv[1:] if '-' in a] or sorted(d for d in os.listdir(os.path.join(VERIF, 'seeded')) if os.path.isdir(os.path.join(VERIF, 'seeded', d)))
props = sorted(f[:-3].upper() for f in os.listdir(os.path.join(VERIF, 'aylint', 'rules')) if f.startswith('c') and f[1:3].isdigit())
props = [a for a in sys.argv[1:] if '-' not in a] or props
def one(sid):
    wt = '/tmp/sv/run-' + sid
    os.makedirs('/tmp/sv', exist_ok=True)
    subprocess.run(['rm', '-rf', wt])
    os.makedirs(wt)
    # the checks only read sources: a plain copy of the package is enough (static analysis, nothing is imported)
    subprocess.run(['cp', '-r', '/repo/awesomeyaml', wt + '/awesomeyaml'], check=True)
    try:
        p = subprocess.run(['git', 'apply', '--include=awesomeyaml/*', os.path.join(VERIF, 'seeded', sid, 'patch.diff')], cwd=wt, capture_output=True, text=True)
        if p.returncode:
            return sid, {'apply': 'FAILED ' + p.stderr[-200:]}
        ev = tempfile.mkdtemp(prefix='ayev')
        env = dict(os.environ, AYLINT_EVIDENCE_DIR=ev, AYLINT_REPLAY_DIR=ev, AYLINT_JOBS='1')
        res = {}
        for pr in props:
            q = subprocess.run(['/venv/bin/python', '-m', 'aylint', 'check', pr, '--repo', wt, '--no-selftest'], cwd=VERIF, env=env, capture_output=True, text=True)
            if q.returncode:
                rules = sorted({l.split()[1].rstrip(':') for l in q.stdout.split('\n') if l.startswith('  rule ')})
                res[pr] = (q.returncode, rules if q.returncode == 1 else [l for l in q.stdout.split('\n') if 'ANALYSIS-ERROR' in l][:1])
        subprocess.run(['rm', '-rf', ev])
        return sid, res
    finally:
        subprocess.run(['rm', '-rf', wt])
with cf.ThreadPoolExecutor(8) as ex:
    out = dict(ex.map(one, seeds))
summary = {}
for sid in seeds:
    r = out[sid]
    own = sid.split('-')[0]
    caught = [p for p, (rc, _) in r.items() if rc == 1] if 'apply' not in r else []
    print(sid, 'CAUGHT' if caught else 'missed', json.dumps(r))
    summary[sid] = r
json.dump(summary, open('/tmp/sv/last_seeded_run.json', 'w'), indent=1)
