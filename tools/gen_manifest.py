#!/venv/bin/python
"""Regenerate /verif/MANIFEST.json from the rule modules present under aylint/rules (cNN.py)."""
import importlib, json, os, sys
VERIF = os.path.dirname(os.path.dirname(os.path.abspath(__file__)))
sys.path.insert(0, VERIF)
props = [json.loads(l) for l in open(os.path.join(VERIF, 'properties.jsonl'))]
NA_REASONS = {}
checks, na = [], []
for p in props:
    pid = p['id']
    try:
        mod = importlib.import_module('aylint.rules.' + pid.lower())
    except ImportError:
        na.append({'property_id': pid, 'reason': NA_REASONS.get(pid, 'check not implemented yet (static-analysis machinery under construction)')})
        continue
    if getattr(mod, 'NOT_APPLICABLE', None):
        na.append({'property_id': pid, 'reason': mod.NOT_APPLICABLE})
        continue
    checks.append({
        'property_id': pid,
        'quick_cmd': '/venv/bin/python -m aylint check %s --tier quick' % pid,
        'thorough_cmd': '/venv/bin/python -m aylint check %s --tier thorough' % pid,
        'evidence_file': '/verif/evidence/%s.json' % pid,
        'replay_cmd_template': '/venv/bin/python -m aylint replay {path}',
        'engine': 'aylint',
        'level_claimed': {
            'category': 'other',
            'text': ('Static analysis of the current /repo sources (parsed with ast, never imported or run). It decides named structural clauses that are '
                     'necessary conditions of %s - not the behaviour as a whole: ' % pid) + ' '.join(mod.DECIDED) +
                    ' The behavioural remainder quantifies over runtime data and is declared undecided (static n/a): ' + ' '.join(mod.UNDECIDED) +
                    ' This is the right level because the property is universally quantified over inputs/histories that no test can enumerate, while these clauses are quantifier-free in the input and hold for all of them at once.',
            'design_ref': 'DESIGN.md section 5 / %s' % pid,
        },
        'level_note': ('Trusted base: CPython ast, the aylint engine (class/ayns resolution model, CFG + must-dataflow, finite-domain evaluator, effect pairing, path-base typing). '
                       'Necessary-not-sufficient: a data-dependent bug inside correctly shaped code is out of reach. Unrecognised shapes give exit 2 (ANALYSIS-ERROR), never a VIOLATION. '
                       'Every run re-validates the rules on in-memory mutants of the current tree (expected rule must fire; neutral edits must stay silent). ' +
                       ' '.join(getattr(mod, 'ASSUMPTIONS', []))),
        'technique': getattr(mod, 'TECHNIQUE', 'static analysis of the parsed sources (ast; nothing imported or run): resolved class / call model; path-sensitive abstract interpretation of the anchored functions (event traces over canonical symbolic values, helpers inlined, branch facts evaluated over finite domains); finite-domain evaluation of anchored functions on abstract node objects with recording stand-ins for collaborators (truth / binding / lookup tables); two-store effect pairing, path-base typing and shared-write inventories; per-run self-test by in-memory mutants'),
    })
m = {
    'version': 1,
    'setup_cmd': 'true',
    'hooks': {'guard': 'AWESOMEYAML_VERIF', 'enable': 'none needed: static analysis reads /repo sources; no instrumentation exists in /repo',
              'baseline_off_cmd': 'cd /repo && /venv/bin/python -m pytest -ra -q -p no:cacheprovider --timeout=900 --continue-on-collection-errors',
              'source_commits': [], 'add_only': True},
    'engines': [{'name': 'aylint', 'path': '/verif/aylint', 'serves_properties': [c['property_id'] for c in checks],
                 'kind_free_text': 'repository-specific static analyser (pure stdlib ast): source model with ayns-namespace resolution, statement CFG with must/may dataflow and branch facts, finite-domain evaluator over flag/priority domains, two-store effect pairing, path-base typing, escape analysis; in-memory mutation self-test'}],
    'checks': checks,
    'notes': 'All checks: exit 0 = all rule instances discharged (KNOWN-FINDING lines for entries of known_findings.json); exit 1 = unlisted violation (VIOLATION property=<id> replay=<path>); exit 2 = ANALYSIS-ERROR (no verdict). See DESIGN.md.',
    'not_applicable': na,
}
json.dump(m, open(os.path.join(VERIF, 'MANIFEST.json'), 'w'), indent=1)
print('checks:', [c['property_id'] for c in checks], 'n/a:', [n['property_id'] for n in na])
