#!/venv/bin/python
"""Run every check against every confirmed behaviour-preserving patch under /verif/neutral: all must exit 0.
Prints per patch the properties that exit 1 (FALSE ALARM) or 2 (no verdict)."""
import json, os, subprocess, sys, tempfile, concurrent.futures as cf
VERIF = os.path.dirname(os.path.dirname(os.path.abspath(__file__)))
ids = [a for a in sys.argv[1:] if not a.startswith('C')] or sorted(d for d in os.listdir(os.path.join(VERIF, 'neutral')) if os.path.isdir(os.path.join(VERIF, 'neutral', d)))
props = sorted(f[:-3].upper() for f in os.listdir(os.path.join(VERIF, 'aylint', 'rules')) if f.startswith('c') and f[1:3].isdigit())
props = [a for a in sys.argv[1:] if a.startswith('C')] or props
def one(nid):
    wt = tempfile.mkdtemp(prefix='neut')
    subprocess.run(['cp', '-r', '/repo/awesomeyaml', wt + '/awesomeyaml'], check=True)
    p = subprocess.run(['git', 'apply', '--include=awesomeyaml/*', os.path.join(VERIF, 'neutral', nid, 'patch.diff')], cwd=wt, capture_output=True, text=True)
    if p.returncode:
        return nid, {'apply': p.stderr[-200:]}
    ev = tempfile.mkdtemp(prefix='ayev')
    env = dict(os.environ, AYLINT_EVIDENCE_DIR=ev, AYLINT_REPLAY_DIR=ev, AYLINT_JOBS='1')
    res = {}
    for pr in props:
        q = subprocess.run(['/venv/bin/python', '-m', 'aylint', 'check', pr, '--repo', wt, '--no-selftest'], cwd=VERIF, env=env, capture_output=True, text=True)
        if q.returncode:
            lines = [l.strip() for l in q.stdout.split('\n') if l.startswith('  rule ') or 'ANALYSIS-ERROR' in l]
            res[pr] = (q.returncode, [l[:230] for l in lines[:3]])
    subprocess.run(['rm', '-rf', wt, ev])
    return nid, res
with cf.ThreadPoolExecutor(8) as ex:
    out = dict(ex.map(one, ids))
fa = nv = 0
for nid in ids:
    r = out[nid]
    f1 = sorted(k for k, v in r.items() if isinstance(v, (list, tuple)) and v[0] == 1)
    f2 = sorted(k for k, v in r.items() if isinstance(v, (list, tuple)) and v[0] == 2)
    fa += len(f1); nv += len(f2)
    print(nid, 'OK' if not r else '', ('FALSE-ALARM %s' % f1) if f1 else '', ('no-verdict %s' % f2) if f2 else '')
    if '-v' in os.environ.get('NEUTRAL_FLAGS', ''):
        for k, v in sorted(r.items()):
            print('    ', k, v)
json.dump(out, open('/tmp/sv/last_neutral_run.json', 'w'), indent=1)
print('TOTAL false alarms: %d, no-verdict: %d over %d patches x %d checks' % (fa, nv, len(ids), len(props)))
