#!/venv/bin/python
"""Triage demonstrations for every finding of DESIGN.md section 6.

NOT a check and not registered in MANIFEST.json: this file *runs* awesomeyaml and
exists only to show, against the real code, that a rule which fired on the pinned tree
pointed at a genuine defect (and that the "fix:" commit repaired it).

usage: /venv/bin/python repro/findings.py [ID ...]      (default: all)
       prints "<ID> HOLDS|BROKEN <detail>"; exit 0 iff every selected item HOLDS.
Items that may crash or hang the interpreter run in a subprocess with a timeout.
"""
import os
import subprocess
import sys
import tempfile

REPO = os.environ.get('AY_REPO', '/repo')
sys.path.insert(0, REPO)


def _build(*docs, safes=None, filename=None):
    import awesomeyaml as ay
    from awesomeyaml.builder import Builder
    b = Builder()
    for i, d in enumerate(docs):
        kw = {}
        if safes is not None:
            kw['safe'] = safes[i]
        if filename is not None:
            kw['filename'] = filename
        if isinstance(d, str):
            b.add_source(d, raw_yaml=True, **kw)
        else:
            b.stages.append(d)
    return ay.Config(b.build())


def _plain(x):
    if isinstance(x, dict):
        return {k: _plain(v) for k, v in x.items()}
    if isinstance(x, (list, tuple)):
        return [_plain(v) for v in x]
    return x


def _try(fn):
    try:
        return fn()
    except BaseException as e:  # noqa
        c = e
        while c.__cause__ is not None:
            c = c.__cause__
        return 'ERR:%s/%s' % (type(e).__name__, type(c).__name__)


def _sub(code, timeout=20):
    p = subprocess.run([sys.executable, '-c', 'import sys; sys.path.insert(0, %r)\n' % REPO + code],
                       capture_output=True, text=True, timeout=timeout)
    return p.returncode, p.stdout.strip(), p.stderr.strip()[-300:]


def F1():
    r = _plain(_try(lambda: _build("a: !force\n  b:\n    c: [1,2,3]\n")))
    return r == {'a': {'b': {'c': [1, 2, 3]}}}, r


def F2():
    sys.path.insert(0, REPO)
    import tests.utils as tu  # noqa  (tests.utils.malicious raises when called)
    r = _try(lambda: _build("f: !required", "f: !call:tests.utils.malicious {}", safes=[True, False]))
    return isinstance(r, str) and 'UnsafeError' in r, r


def F3():
    a = _try(lambda: _build("g: !unsafe 5\nf: !call:tests.utils.dummy {a: !xref g}"))
    b = _try(lambda: _build("f: !call:tests.utils.dummy {a: !xref g}\ng: !unsafe 5"))
    c = _try(lambda: _build("g: !unsafe 5\nf: !eval 'g'", filename='x.yaml'))
    ok = all(isinstance(x, str) and x.startswith('ERR') for x in (a, b, c))
    return ok, (str(a)[:60], str(b)[:60], str(c)[:60])


def F4():
    code = ("import awesomeyaml as ay\n"
            "for src in ['a: !xref a', 'a: !xref b\\nb: !xref a']:\n"
            "    try:\n        ay.Config.build(src, raw_yaml=True); print('built')\n"
            "    except Exception as e: print('error', type(e).__name__)\n")
    try:
        rc, out, err = _sub(code, timeout=8)
    except subprocess.TimeoutExpired:
        return False, 'hangs (timeout 8 s)'
    return out.split() == ['error', 'EvalError', 'error', 'EvalError'], out


def F5():
    r = _plain(_try(lambda: _build("a: {b: {x: 1}}", "a: {b: !del {a: !weak 7}}")))
    return r == {'a': {'b': {'a': 7}}}, r


def F6():
    d = tempfile.mkdtemp()
    try:
        open(os.path.join(d, 'f1.yaml'), 'w').write("l: [1,2,3]\n")
        open(os.path.join(d, 'f2.yaml'), 'w').write("l: [9]\n")
        open(os.path.join(d, 'm.yaml'), 'w').write("--- !include [f1.yaml, f2.yaml]\n")
        import awesomeyaml as ay
        r = _plain(_try(lambda: ay.Config.build(os.path.join(d, 'm.yaml'))))
        s = _plain(_try(lambda: ay.Config.build(os.path.join(d, 'f1.yaml'), os.path.join(d, 'f2.yaml'))))
    finally:
        import shutil
        shutil.rmtree(d)
    return r == s == {'l': [9]}, (r, s)


def F7():
    r = _plain(_try(lambda: _build("_a: 1\nb: {_c: 2, d: 3}\n")))
    return r == {'_a': 1, 'b': {'_c': 2, 'd': 3}}, r


def F8():
    from awesomeyaml.nodes import ConfigList, ConfigDict
    import awesomeyaml as ay
    l = ConfigList([1, 2])
    l.insert(0, 0)
    r = _plain(ay.EvalContext().evaluate(ConfigDict({'l': l})))
    return r == {'l': [0, 1, 2]} and list(l._children) == [0, 1, 2], (r, list(l._children))


def F9():
    r = _plain(_try(lambda: _build("a: !force\n  b:\n    c:\n      d: 1\n", "a: {b: {c: {d: 2}}}")))
    return r == {'a': {'b': {'c': {'d': 1}}}}, r


def F10():
    d = tempfile.mkdtemp()
    open(os.path.join(d, 'tmod_f10.py'), 'w').write("def g(a=0, **kw):\n    return (a, kw)\n")
    sys.path.insert(0, d)
    try:
        r = _try(lambda: _plain(_build("f: !call:tmod_f10.g {1: 5}"))['f'])
    finally:
        import shutil
        shutil.rmtree(d)
    return isinstance(r, str) and r.startswith('ERR'), r


def F11():
    r = _plain(_try(lambda: _build("c: !eval '1+1'")))
    return r == {'c': 2}, r


def F12():
    from awesomeyaml.nodes import ConfigList
    l = ConfigList([1, 2, 3])
    l.pop()
    return list(l._children) == [0, 1] and len(l) == 2, (list(l), list(l._children))


def F13():
    from awesomeyaml.nodes import ConfigDict
    d = ConfigDict({'a': 1, 'b': 2})
    d.ayns.rename_child('a', 'c')
    return sorted(dict.keys(d)) == sorted(d._children) == ['b', 'c'], (list(dict.keys(d)), list(d._children))


def F14():
    r = _plain(_try(lambda: _build("l: [a, b, c]", "q: !prev l[0]")))
    return r == {'l': ['b', 'c'], 'q': 'a'}, r


def F15():
    import awesomeyaml.yaml as ayy
    n = list(ayy.parse("a: !metadata{{'safe': True}} 1"))[0]
    t = ayy.dump(n)
    r = _try(lambda: list(ayy.parse(t))[0].a.ayns.node_info['safe'])
    return r is True, (t, r)


def F16():
    import awesomeyaml.yaml as ayy
    from awesomeyaml.builder import Builder
    b = Builder()
    b.add_source("a: !force", raw_yaml=True)
    t = ayy.dump(b.stages[0])
    r = _plain(_try(lambda: _build(t, "a: 5")))
    return r == {'a': None}, (t, r)


def F17():
    return K2()


def F18():
    import tests.utils  # noqa
    r = _try(lambda: _build("a: !unsafe {b: !metadata{{'safe': True}} {c: !call:tests.utils.malicious {}}}"))
    return isinstance(r, str) and 'UnsafeError' in r, r


def F19():
    r = _plain(_try(lambda: _build("a: &x [1, 2]\nb: {c: *x}\n")))
    return r == {'a': [1, 2], 'b': {'c': [1, 2]}}, r


def F20():
    """C07.R4c: a safe container evaluated earlier handed the value of its !unsafe child to a call through !xref."""
    code = ("import sys, types\n"
            "calls = []\n"
            "m = types.ModuleType('f20mod'); m.f = lambda **kw: calls.append(kw) or 'ran'; sys.modules['f20mod'] = m\n"
            "import awesomeyaml as ay\n"
            "try:\n"
            "    ay.Config.build('p: {s: !unsafe 1337, t: 1}\\nfn: !call:f20mod.f {x: !xref p}', raw_yaml=True)\n"
            "    print('built', calls)\n"
            "except Exception as e:\n"
            "    print(type(e).__name__, calls)\n")
    rc, out, err = _sub(code)
    return out.startswith(('EvalError []', 'UnsafeError []')), (rc, out, err[-120:])


def F21():
    """C18.R12: the frame of inherited flags pushed for the children lacked a flag that was written as a short tag, so the value of
    a more distant ancestor stayed 'inherited' below a `!merge` list and an equal explicit flag of a grandchild was elided."""
    import awesomeyaml.yaml as ayy
    doc = "a: !metadata{{'delete': True, 'note': 1}}\n  l: !merge\n    - !del {x: 1}\n"
    t = ayy.dump(list(ayy.parse(doc))[0])
    base = "a: {k: !force 1, l: [!force {u: 5}]}"
    orig = _plain(_try(lambda: _build(base, doc)))
    rep = _plain(_try(lambda: _build(base, t)))
    return orig == rep, (t, orig, rep)


def F22():
    """C19.R6: a deep copy of a merged tree re-derived the inherited flags of the children and merged differently."""
    import copy
    import awesomeyaml as ay
    from awesomeyaml.builder import Builder

    def build(*docs):
        b = Builder()
        for d in docs:
            b.add_source(d, raw_yaml=True)
        return b.build()

    def over(base, t):
        b = Builder()
        b.add_source(base, raw_yaml=True)
        b.stages.append(t)
        return _plain(ay.Config(b.build()))
    docs = ["a: [[1, 2], [3]]", "a: !merge [[9]]"]
    base = "a: [[5, 6, 7], [8, 8]]"
    orig = _try(lambda: over(base, build(*docs)))
    cp = _try(lambda: over(base, copy.deepcopy(build(*docs))))
    return orig == cp, (orig, cp)


def K8():
    """C19.R2 known finding: a tuple node cannot be deep-copied or pickled."""
    import copy
    import pickle
    from awesomeyaml.nodes.tuple import ConfigTuple
    t = ConfigTuple((1, 2))
    a = _try(lambda: tuple(copy.deepcopy(t)))
    b = _try(lambda: tuple(pickle.loads(pickle.dumps(t))))
    return a == (1, 2) and b == (1, 2), (a, b)


def K1():
    """C12.R1 known finding: namespace cached in sys.modules across builds."""
    code = ("import awesomeyaml as ay\n"
            "src = 'k: %d\\nc: !eval |\\n  y = 1\\n  ayns.cfg.k\\n'\n"
            "print(ay.Config.build(src % 1, raw_yaml=True, filename='x.yaml').c, ay.Config.build(src % 2, raw_yaml=True, filename='x.yaml').c)\n")
    rc, out, err = _sub(code)
    return out == '1 2', (rc, out, err[-120:])


def K2():
    """C12.R5 (fixed by F17): LOAD_ATTR operand not shifted on CPython >= 3.12."""
    code = ("import awesomeyaml as ay\n"
            "print(dict(ay.Config.build(\"a: 1\\nb: 2\\nc: !eval 'a + b'\", raw_yaml=True, filename='x.yaml')))\n")
    rc, out, err = _sub(code)
    return rc == 0 and out.endswith("'c': 3}"), (rc, out, err[-120:])


def K3():
    """C17.R1 known finding: ConfigList.ayns.rename_child breaks 0..n-1 numbering."""
    from awesomeyaml.nodes import ConfigList
    l = ConfigList([1, 2, 3])
    r = _try(lambda: l.ayns.rename_child(0, 5))
    ok = (isinstance(r, str) and r.startswith('ERR')) or list(l._children) == list(range(len(l)))
    return ok, (list(l), list(l._children))


def K4():
    """C18.R3 known finding: elision of !merge."""
    import awesomeyaml.yaml as ayy
    from awesomeyaml.builder import Builder
    b = Builder()
    b.add_source("a: !merge {l: [9]}", raw_yaml=True)
    t = ayy.dump(b.stages[0])
    b2 = Builder()
    b2.add_source("a: !merge {l: [9]}", raw_yaml=True)
    orig = _plain(_try(lambda: _build("a: {l: [1,2,3]}", b2.stages[0])))
    rep = _plain(_try(lambda: _build("a: {l: [1,2,3]}", t)))
    return orig == rep, (t, orig, rep)


def K7():
    """C18.R3 known finding: elision of !new below !notnew."""
    import awesomeyaml.yaml as ayy
    from awesomeyaml.builder import Builder
    def parse(src):
        b = Builder(); b.add_source(src, raw_yaml=True); return b.stages[0]
    src = "!notnew {a: !new {b: 1}}"
    t = ayy.dump(parse(src))
    orig = _plain(_try(lambda: _build("a: {}", parse(src))))
    rep = _plain(_try(lambda: _build("a: {}", t)))
    return orig == rep, (t, orig, rep)


def K5():
    """C12.R7 known finding: stale exception table after instruction insertion."""
    code = ("import awesomeyaml as ay\n"
            "src = \"a: 1\\nc: !eval |\\n  try:\\n    x = a\\n    y = int('zz')\\n  except ValueError:\\n    y = -1\\n  y\"\n"
            "print(ay.Config.build(src, raw_yaml=True, filename='x.yaml').c)\n")
    rc, out, err = _sub(code)
    return out == '-1', (rc, out, err[-120:])


def K6():
    """C12.R8 known finding: single-byte operands, no EXTENDED_ARG."""
    code = ("import awesomeyaml as ay\n"
            "names = ['n%d' % i for i in range(130)]\n"
            "src = '\\n'.join('%s: %d' % (n, i) for i, n in enumerate(names)) + \"\\nc: !eval '\" + ' + '.join(names) + \"'\"\n"
            "print(ay.Config.build(src, raw_yaml=True, filename='x.yaml').c)\n")
    rc, out, err = _sub(code)
    return out == str(sum(range(130))), (rc, out, err[-120:])


ALL = ['F%d' % i for i in range(1, 23)] + ['K1', 'K2', 'K3', 'K4', 'K5', 'K6', 'K7', 'K8']

if __name__ == '__main__':
    if len(sys.argv) == 3 and sys.argv[1] == '--one':
        i = sys.argv[2]
        try:
            ok, detail = globals()[i]()
        except BaseException as e:  # noqa
            ok, detail = False, 'EXC %s: %s' % (type(e).__name__, str(e)[:200])
        print(i, 'HOLDS' if ok else 'BROKEN', str(detail)[:220])
        sys.exit(0 if ok else 1)
    ids = sys.argv[1:] or ALL
    bad = 0
    for i in ids:  # each item in a fresh interpreter: several defects depend on process history
        p = subprocess.run([sys.executable, os.path.abspath(__file__), '--one', i], capture_output=True, text=True)
        print(p.stdout.strip() or '%s BROKEN (no output) %s' % (i, p.stderr.strip()[-200:]))
        bad += (p.returncode != 0)
    sys.exit(1 if bad else 0)
